// zkv-driver: a rustc_private driver that dumps type tables, impl tables and
// structured MIR (opt-level 0) of the crate being compiled as one JSON fact file.
//
// Used as RUSTC_WORKSPACE_WRAPPER under `cargo +nightly check`; argv[1] is the
// real rustc path and is dropped.  Output: $ZKV_FACTS_DIR/<crate_name>.json
// (one write per process).  No rule logic lives here.
#![feature(rustc_private)]
#![allow(rustc::internal)]

extern crate rustc_abi;
extern crate rustc_data_structures;
extern crate rustc_driver;
extern crate rustc_hir;
extern crate rustc_interface;
extern crate rustc_middle;
extern crate rustc_span;

use rustc_driver::Compilation;
use rustc_hir::def::DefKind;
use rustc_hir::def_id::{DefId, LOCAL_CRATE};
use rustc_middle::mir::{
    self, AggregateKind, BasicBlockData, Body, CastKind, Operand, Place, ProjectionElem, Rvalue,
    StatementKind, TerminatorKind,
};
use rustc_middle::ty::{self, GenericArgKind, GenericArgsRef, Ty, TyCtxt, TypeVisitableExt, TypingEnv};
use rustc_span::Span;
use std::collections::HashMap;
use std::fmt::Write as _;

// ---------------------------------------------------------------- tiny JSON
#[derive(Clone)]
enum J {
    Null,
    Bool(bool),
    Num(String),
    Str(String),
    Arr(Vec<J>),
    Obj(Vec<(&'static str, J)>),
}

fn js(s: impl Into<String>) -> J {
    J::Str(s.into())
}
fn jn(n: impl std::fmt::Display) -> J {
    J::Num(n.to_string())
}

impl J {
    fn write(&self, out: &mut String) {
        match self {
            J::Null => out.push_str("null"),
            J::Bool(b) => out.push_str(if *b { "true" } else { "false" }),
            J::Num(n) => out.push_str(n),
            J::Str(s) => {
                out.push('"');
                for c in s.chars() {
                    match c {
                        '"' => out.push_str("\\\""),
                        '\\' => out.push_str("\\\\"),
                        '\n' => out.push_str("\\n"),
                        '\r' => out.push_str("\\r"),
                        '\t' => out.push_str("\\t"),
                        c if (c as u32) < 0x20 => {
                            let _ = write!(out, "\\u{:04x}", c as u32);
                        }
                        c => out.push(c),
                    }
                }
                out.push('"');
            }
            J::Arr(v) => {
                out.push('[');
                for (i, x) in v.iter().enumerate() {
                    if i > 0 {
                        out.push(',');
                    }
                    x.write(out);
                }
                out.push(']');
            }
            J::Obj(v) => {
                out.push('{');
                for (i, (k, x)) in v.iter().enumerate() {
                    if i > 0 {
                        out.push(',');
                    }
                    out.push('"');
                    out.push_str(k);
                    out.push_str("\":");
                    x.write(out);
                }
                out.push('}');
            }
        }
    }
}

// ---------------------------------------------------------------- context
struct Cx<'tcx> {
    tcx: TyCtxt<'tcx>,
    types: Vec<J>,
    type_ix: HashMap<Ty<'tcx>, usize>,
    defs: Vec<J>,
    def_ix: HashMap<DefId, usize>,
    workspace: Vec<String>,
}

impl<'tcx> Cx<'tcx> {
    fn def_id_string(&self, did: DefId) -> String {
        let krate = self.tcx.crate_name(did.krate);
        format!("{}{}", krate, self.tcx.def_path(did).to_string_no_crate_verbose())
    }

    fn path_string(&self, did: DefId) -> String {
        // Items of the analysed workspace get their *definition* path (re-exports would otherwise
        // print differently from different crates); impl items and closures keep the display form.
        let kname = self.tcx.crate_name(did.krate).to_string();
        if self.workspace.iter().any(|w| *w == kname) {
            let dp = self.tcx.def_path(did);
            let plain = dp.data.iter().all(|d| {
                matches!(
                    d.data,
                    rustc_hir::definitions::DefPathData::TypeNs(_)
                        | rustc_hir::definitions::DefPathData::ValueNs(_)
                        | rustc_hir::definitions::DefPathData::Ctor
                )
            });
            let is_adt = matches!(self.tcx.def_kind(did), DefKind::Struct | DefKind::Enum | DefKind::Union);
            if plain || is_adt {
                // (types declared inside function bodies, e.g. serde's `__Visitor` / `__SerializeWith`,
                // would otherwise print identically: use the unique definition path)
                return format!("{}{}", kname, dp.to_string_no_crate_verbose());
            }
        }
        let s = ty::print::with_no_trimmed_paths!(self.tcx.def_path_str(did));
        if did.is_local() {
            format!("{}::{}", self.tcx.crate_name(LOCAL_CRATE), s)
        } else {
            s
        }
    }

    /// Intern a definition descriptor and return its index.
    fn def(&mut self, did: DefId) -> usize {
        if let Some(&i) = self.def_ix.get(&did) {
            return i;
        }
        let i = self.defs.len();
        self.defs.push(J::Null);
        self.def_ix.insert(did, i);
        let tcx = self.tcx;
        let kind = tcx.def_kind(did);
        let mut o: Vec<(&'static str, J)> = vec![
            ("id", js(self.def_id_string(did))),
            ("path", js(self.path_string(did))),
            ("kind", js(format!("{:?}", kind))),
            ("krate", js(tcx.crate_name(did.krate).to_string())),
            ("local", J::Bool(did.is_local())),
        ];
        let name = tcx.opt_item_name(did).map(|s| s.to_string()).unwrap_or_default();
        o.push(("name", js(name)));
        if matches!(kind, DefKind::AssocFn | DefKind::AssocConst { .. } | DefKind::AssocTy) {
            let parent = tcx.parent(did);
            match tcx.def_kind(parent) {
                DefKind::Trait => {
                    o.push(("container", js("trait")));
                    o.push(("trait", js(self.path_string(parent))));
                }
                DefKind::Impl { of_trait } => {
                    o.push(("container", js("impl")));
                    o.push(("impl", js(self.def_id_string(parent))));
                    if of_trait {
                        let tr = tcx.impl_trait_ref(parent).skip_binder();
                        o.push(("trait", js(self.path_string(tr.def_id))));
                        // the trait item this impl item implements
                        if let Some(ti) = tcx.associated_item(did).trait_item_def_id() {
                            o.push(("trait_item", js(self.path_string(ti))));
                        }
                    }
                    let st = tcx.type_of(parent).instantiate_identity().skip_norm_wip();
                    let t = self.ty(st);
                    o.push(("self_ty", jn(t)));
                }
                _ => {}
            }
        }
        if matches!(kind, DefKind::Closure) {
            let parent = tcx.typeck_root_def_id(did);
            o.push(("closure_of", js(self.def_id_string(parent))));
        }
        if matches!(kind, DefKind::Ctor(..)) {
            let parent = tcx.parent(did);
            o.push(("ctor_of", js(self.path_string(parent))));
        }
        self.defs[i] = J::Obj(o);
        i
    }

    fn generic_args(&mut self, args: GenericArgsRef<'tcx>) -> J {
        let mut v = vec![];
        for a in args.iter() {
            match a.kind() {
                GenericArgKind::Type(t) => v.push(jn(self.ty(t))),
                GenericArgKind::Const(c) => {
                    v.push(J::Obj(vec![("const", self.ty_const(c))]));
                }
                GenericArgKind::Lifetime(_) => {}
            }
        }
        J::Arr(v)
    }

    fn ty_const(&mut self, c: ty::Const<'tcx>) -> J {
        if let Some(v) = c.try_to_target_usize(self.tcx) {
            return jn(v);
        }
        js(format!("{}", c))
    }

    /// Intern a structured type and return its index.
    fn ty(&mut self, t: Ty<'tcx>) -> usize {
        if let Some(&i) = self.type_ix.get(&t) {
            return i;
        }
        // evaluate constants inside closed types (e.g. `[T; RP_PARAMETER_L]`)
        if !t.has_non_region_param() && !t.has_escaping_bound_vars() && !matches!(t.kind(), ty::FnDef(..) | ty::Closure(..)) {
            if let Ok(n) = self.tcx.try_normalize_erasing_regions(TypingEnv::fully_monomorphized(), rustc_middle::ty::Unnormalized::new_wip(t)) {
                if n != t {
                    let i = self.ty(n);
                    self.type_ix.insert(t, i);
                    return i;
                }
            }
        }
        let i = self.types.len();
        self.types.push(J::Null);
        self.type_ix.insert(t, i);
        let s = ty::print::with_no_trimmed_paths!(t.to_string());
        let mut o: Vec<(&'static str, J)> = vec![];
        match t.kind() {
            ty::Bool | ty::Char | ty::Int(_) | ty::Uint(_) | ty::Float(_) | ty::Str | ty::Never => {
                o.push(("k", js("prim")));
                o.push(("n", js(s.clone())));
            }
            ty::Adt(def, args) => {
                o.push(("k", js("adt")));
                o.push(("p", js(self.path_string(def.did()))));
                o.push(("d", jn(self.def(def.did()))));
                let a = self.generic_args(args);
                o.push(("a", a));
            }
            ty::Ref(_, inner, m) => {
                o.push(("k", js("ref")));
                o.push(("m", J::Bool(m.is_mut())));
                o.push(("t", jn(self.ty(*inner))));
            }
            ty::RawPtr(inner, m) => {
                o.push(("k", js("ptr")));
                o.push(("m", J::Bool(m.is_mut())));
                o.push(("t", jn(self.ty(*inner))));
            }
            ty::Array(inner, len) => {
                o.push(("k", js("array")));
                o.push(("t", jn(self.ty(*inner))));
                o.push(("n", self.ty_const(*len)));
            }
            ty::Slice(inner) => {
                o.push(("k", js("slice")));
                o.push(("t", jn(self.ty(*inner))));
            }
            ty::Tuple(ts) => {
                o.push(("k", js("tuple")));
                let v: Vec<J> = ts.iter().map(|x| jn(self.ty(x))).collect();
                o.push(("ts", J::Arr(v)));
            }
            ty::Param(p) => {
                o.push(("k", js("param")));
                o.push(("n", js(p.name.to_string())));
            }
            ty::Closure(did, _args) => {
                o.push(("k", js("closure")));
                o.push(("d", jn(self.def(*did))));
            }
            ty::FnDef(did, args) => {
                o.push(("k", js("fndef")));
                o.push(("d", jn(self.def(*did))));
                let a = self.generic_args(args);
                o.push(("a", a));
            }
            ty::Alias(..) => {
                o.push(("k", js("alias")));
            }
            ty::Dynamic(..) => {
                o.push(("k", js("dyn")));
            }
            ty::FnPtr(..) => {
                o.push(("k", js("fnptr")));
            }
            _ => {
                o.push(("k", js("other")));
            }
        }
        o.push(("s", js(s)));
        self.types[i] = J::Obj(o);
        i
    }

    fn span(&self, sp: Span) -> J {
        let sm = self.tcx.sess.source_map();
        let lo = sm.lookup_char_pos(sp.lo());
        let hi = sm.lookup_char_pos(sp.hi());
        let file = match &lo.file.name {
            rustc_span::FileName::Real(r) => r
                .local_path()
                .map(|p| p.to_string_lossy().to_string())
                .unwrap_or_else(|| format!("{:?}", lo.file.name)),
            other => format!("{:?}", other),
        };
        J::Obj(vec![
            ("file", js(file)),
            ("lo", jn(lo.line)),
            ("hi", jn(hi.line)),
            ("exp", J::Bool(sp.from_expansion())),
        ])
    }

    fn line(&self, sp: Span) -> J {
        // Line of the outermost call site when the span comes from a macro expansion.
        let sp2 = sp.source_callsite();
        let sm = self.tcx.sess.source_map();
        let lo = sm.lookup_char_pos(sp2.lo());
        jn(lo.line)
    }

    // ------------------------------------------------------------ MIR
    fn place(&mut self, body: &Body<'tcx>, p: &Place<'tcx>) -> J {
        let mut proj = vec![];
        let mut cur_ty = mir::PlaceTy::from_ty(body.local_decls[p.local].ty);
        for elem in p.projection.iter() {
            let j = match elem {
                ProjectionElem::Deref => js("*"),
                ProjectionElem::Field(f, fty) => {
                    // field name when the base is an ADT
                    let mut o = vec![("f", jn(f.as_usize()))];
                    if let ty::Adt(def, _) = cur_ty.ty.kind() {
                        let vidx = cur_ty.variant_index.unwrap_or(rustc_abi::FIRST_VARIANT);
                        if def.is_struct() || def.is_enum() || def.is_union() {
                            if let Some(v) = def.variants().get(vidx) {
                                if let Some(fd) = v.fields.get(f) {
                                    o.push(("n", js(fd.name.to_string())));
                                }
                            }
                        }
                    }
                    o.push(("t", jn(self.ty(fty))));
                    J::Obj(o)
                }
                ProjectionElem::Index(l) => J::Obj(vec![("idx", jn(l.as_usize()))]),
                ProjectionElem::ConstantIndex { offset, min_length, from_end } => J::Obj(vec![
                    ("cidx", jn(offset)),
                    ("min", jn(min_length)),
                    ("from_end", J::Bool(from_end)),
                ]),
                ProjectionElem::Subslice { from, to, from_end } => J::Obj(vec![
                    ("sub_from", jn(from)),
                    ("sub_to", jn(to)),
                    ("from_end", J::Bool(from_end)),
                ]),
                ProjectionElem::Downcast(name, v) => J::Obj(vec![
                    ("down", jn(v.as_usize())),
                    ("n", js(name.map(|s| s.to_string()).unwrap_or_default())),
                ]),
                ProjectionElem::OpaqueCast(_) => js("opaque"),
                ProjectionElem::UnwrapUnsafeBinder(_) => js("unwrap_binder"),
            };
            proj.push(j);
            cur_ty = cur_ty.projection_ty(self.tcx, elem);
        }
        J::Obj(vec![("l", jn(p.local.as_usize())), ("p", J::Arr(proj))])
    }

    fn constant(&mut self, c: &mir::ConstOperand<'tcx>) -> J {
        let ty = c.const_.ty();
        let tix = self.ty(ty);
        let mut o: Vec<(&'static str, J)> = vec![("ty", jn(tix))];
        if let ty::FnDef(did, args) = ty.kind() {
            o.push(("fn", jn(self.def(*did))));
            let a = self.generic_args(args);
            o.push(("args", a));
            return J::Obj(vec![("const", J::Obj(o))]);
        }
        match c.const_ {
            mir::Const::Unevaluated(uv, _) => {
                o.push(("item", jn(self.def(uv.def))));
                if let Some(p) = uv.promoted {
                    o.push(("promoted", jn(p.as_usize())));
                } else if uv.args.is_empty() || !uv.args.has_non_region_param() {
                    // closed constant of integer type (e.g. i64::MAX): evaluate it
                    if ty.is_integral() || ty.is_bool() {
                        if let Some(si) = c.const_.try_eval_scalar_int(self.tcx, TypingEnv::fully_monomorphized()) {
                            let size = si.size();
                            let bits = si.to_bits(size);
                            if matches!(ty.kind(), ty::Int(_)) {
                                o.push(("int", js(size.sign_extend(bits).to_string())));
                            } else {
                                o.push(("int", js(bits.to_string())));
                            }
                        }
                    }
                }
            }
            mir::Const::Val(v, _) => {
                self.const_value(&mut o, v, ty);
            }
            mir::Const::Ty(_, ct) => {
                let v = self.ty_const(ct);
                o.push(("tyconst", v));
            }
        }
        J::Obj(vec![("const", J::Obj(o))])
    }

    fn const_value(&mut self, o: &mut Vec<(&'static str, J)>, v: mir::ConstValue, ty: Ty<'tcx>) {
        match v {
            mir::ConstValue::Scalar(sc) => {
                if let mir::interpret::Scalar::Int(si) = sc {
                    let size = si.size();
                    let bits = si.to_bits(size);
                    let signed = matches!(ty.kind(), ty::Int(_));
                    if signed {
                        let sv = size.sign_extend(bits);
                        o.push(("int", js(sv.to_string())));
                    } else {
                        o.push(("int", js(bits.to_string())));
                    }
                    o.push(("bits", jn(size.bits())));
                } else {
                    o.push(("ptr", js(format!("{:?}", sc))));
                }
            }
            mir::ConstValue::ZeroSized => {
                o.push(("zst", J::Bool(true)));
            }
            mir::ConstValue::Slice { alloc_id, meta } => {
                let alloc = self.tcx.global_alloc(alloc_id).unwrap_memory();
                let bytes = alloc
                    .inner()
                    .inspect_with_uninit_and_ptr_outside_interpreter(0..(meta as usize));
                if matches!(ty.kind(), ty::Ref(_, t, _) if t.is_str()) {
                    o.push(("str", js(String::from_utf8_lossy(bytes).to_string())));
                } else {
                    o.push(("bytes", js(hex(bytes))));
                }
            }
            mir::ConstValue::Indirect { alloc_id, offset } => {
                if let rustc_middle::mir::interpret::GlobalAlloc::Memory(alloc) =
                    self.tcx.global_alloc(alloc_id)
                {
                    let a = alloc.inner();
                    let len = a.len();
                    let off = offset.bytes_usize();
                    if off <= len && len - off <= 4096 {
                        let bytes = a.inspect_with_uninit_and_ptr_outside_interpreter(off..len);
                        o.push(("bytes", js(hex(bytes))));
                    } else {
                        o.push(("indirect", js("large")));
                    }
                } else {
                    o.push(("indirect", js("non-memory")));
                }
            }
        }
    }

    fn operand(&mut self, body: &Body<'tcx>, op: &Operand<'tcx>) -> J {
        match op {
            Operand::Copy(p) => J::Obj(vec![("copy", self.place(body, p))]),
            Operand::Move(p) => J::Obj(vec![("move", self.place(body, p))]),
            Operand::Constant(c) => self.constant(c),
            other => J::Obj(vec![("opaque", js(format!("{:?}", other)))]),
        }
    }

    fn rvalue(&mut self, body: &Body<'tcx>, rv: &Rvalue<'tcx>) -> J {
        match rv {
            Rvalue::Use(op, ..) => J::Obj(vec![("k", js("use")), ("x", self.operand(body, op))]),
            Rvalue::Repeat(op, n) => J::Obj(vec![
                ("k", js("repeat")),
                ("x", self.operand(body, op)),
                ("n", self.ty_const(*n)),
            ]),
            Rvalue::Ref(_, bk, p) => J::Obj(vec![
                ("k", js("ref")),
                ("m", J::Bool(matches!(bk, mir::BorrowKind::Mut { .. }))),
                ("p", self.place(body, p)),
            ]),
            Rvalue::RawPtr(kind, p) => J::Obj(vec![
                ("k", js("rawptr")),
                ("m", J::Bool(matches!(kind, mir::RawPtrKind::Mut))),
                ("p", self.place(body, p)),
            ]),
            Rvalue::Cast(kind, op, ty) => {
                let k = match kind {
                    CastKind::IntToInt => "IntToInt".to_string(),
                    CastKind::PointerCoercion(c, _) => format!("PointerCoercion({:?})", c),
                    other => format!("{:?}", other),
                };
                J::Obj(vec![
                    ("k", js("cast")),
                    ("ck", js(k)),
                    ("x", self.operand(body, op)),
                    ("from", jn({
                        let t = op.ty(&body.local_decls, self.tcx);
                        self.ty(t)
                    })),
                    ("to", jn(self.ty(*ty))),
                ])
            }
            Rvalue::BinaryOp(op, ab) => J::Obj(vec![
                ("k", js("binop")),
                ("op", js(format!("{:?}", op))),
                ("a", self.operand(body, &ab.0)),
                ("b", self.operand(body, &ab.1)),
                ("ty", jn({
                    let t = ab.0.ty(&body.local_decls, self.tcx);
                    self.ty(t)
                })),
            ]),
            Rvalue::UnaryOp(op, a) => J::Obj(vec![
                ("k", js("unop")),
                ("op", js(format!("{:?}", op))),
                ("a", self.operand(body, a)),
                ("ty", jn({
                    let t = a.ty(&body.local_decls, self.tcx);
                    self.ty(t)
                })),
            ]),
            Rvalue::Discriminant(p) => {
                J::Obj(vec![("k", js("discr")), ("p", self.place(body, p))])
            }
            Rvalue::Aggregate(kind, ops) => {
                let mut o: Vec<(&'static str, J)> = vec![("k", js("agg"))];
                match &**kind {
                    AggregateKind::Array(t) => {
                        o.push(("ak", js("array")));
                        o.push(("t", jn(self.ty(*t))));
                    }
                    AggregateKind::Tuple => o.push(("ak", js("tuple"))),
                    AggregateKind::Adt(did, variant, args, _, union_field) => {
                        o.push(("ak", js("adt")));
                        o.push(("adt", jn(self.def(*did))));
                        o.push(("p", js(self.path_string(*did))));
                        o.push(("variant", jn(variant.as_usize())));
                        let adt = self.tcx.adt_def(*did);
                        let vd = adt.variant(*variant);
                        o.push(("vname", js(vd.name.to_string())));
                        let a = self.generic_args(args);
                        o.push(("args", a));
                        if let Some(f) = union_field {
                            o.push(("union_field", jn(f.as_usize())));
                        }
                    }
                    AggregateKind::Closure(did, _) => {
                        o.push(("ak", js("closure")));
                        o.push(("closure", jn(self.def(*did))));
                    }
                    AggregateKind::RawPtr(..) => o.push(("ak", js("rawptr"))),
                    _ => o.push(("ak", js("other"))),
                }
                let v: Vec<J> = ops.iter().map(|x| self.operand(body, x)).collect();
                o.push(("xs", J::Arr(v)));
                J::Obj(o)
            }
            Rvalue::CopyForDeref(p) => {
                J::Obj(vec![("k", js("use")), ("x", J::Obj(vec![("copy", self.place(body, p))]))])
            }
            other => J::Obj(vec![("k", js("other")), ("s", js(format!("{:?}", other)))]),
        }
    }

    fn call_target(
        &mut self,
        body_did: DefId,
        func: &Operand<'tcx>,
        body: &Body<'tcx>,
    ) -> Vec<(&'static str, J)> {
        let tcx = self.tcx;
        let mut o: Vec<(&'static str, J)> = vec![];
        let fty = func.ty(&body.local_decls, tcx);
        if let ty::FnDef(did, args) = fty.kind() {
            o.push(("callee", jn(self.def(*did))));
            let a = self.generic_args(args);
            o.push(("gargs", a));
            // try to resolve trait dispatch in the body's own typing environment
            let env = TypingEnv::post_analysis(tcx, body_did);
            if let Ok(Some(inst)) = ty::Instance::try_resolve(tcx, env, *did, args) {
                let rdid = inst.def_id();
                if rdid != *did {
                    o.push(("resolved", jn(self.def(rdid))));
                    let ra = self.generic_args(inst.args);
                    o.push(("rargs", ra));
                }
                let kind = match inst.def {
                    ty::InstanceKind::Item(_) => "item",
                    ty::InstanceKind::Intrinsic(_) => "intrinsic",
                    ty::InstanceKind::Virtual(..) => "virtual",
                    ty::InstanceKind::ClosureOnceShim { .. } => "closure_once_shim",
                    ty::InstanceKind::FnPtrShim(..) => "fnptr_shim",
                    ty::InstanceKind::CloneShim(..) => "clone_shim",
                    ty::InstanceKind::DropGlue(..) => "drop_glue",
                    _ => "other",
                };
                o.push(("ikind", js(kind)));
            } else {
                o.push(("ikind", js("unresolved")));
            }
        } else {
            o.push(("indirect", self.operand(body, func)));
        }
        o
    }

    fn block(&mut self, body_did: DefId, body: &Body<'tcx>, bb: &BasicBlockData<'tcx>) -> J {
        let mut stmts = vec![];
        for st in &bb.statements {
            match &st.kind {
                StatementKind::Assign(b) => {
                    let (p, rv) = &**b;
                    stmts.push(J::Obj(vec![
                        ("k", js("assign")),
                        ("p", self.place(body, p)),
                        ("rv", self.rvalue(body, rv)),
                        ("ln", self.line(st.source_info.span)),
                        ("exp", J::Bool(st.source_info.span.from_expansion())),
                    ]));
                }
                StatementKind::SetDiscriminant { place, variant_index } => {
                    stmts.push(J::Obj(vec![
                        ("k", js("setdiscr")),
                        ("p", self.place(body, place)),
                        ("variant", jn(variant_index.as_usize())),
                    ]));
                }
                StatementKind::Intrinsic(i) => {
                    stmts.push(J::Obj(vec![
                        ("k", js("intrinsic")),
                        ("s", js(format!("{:?}", i))),
                    ]));
                }
                _ => {}
            }
        }
        let term = bb.terminator();
        let sp = term.source_info.span;
        let mut t: Vec<(&'static str, J)> = vec![];
        match &term.kind {
            TerminatorKind::Goto { target } => {
                t.push(("k", js("goto")));
                t.push(("target", jn(target.as_usize())));
            }
            TerminatorKind::SwitchInt { discr, targets } => {
                t.push(("k", js("switch")));
                t.push(("x", self.operand(body, discr)));
                let dty = discr.ty(&body.local_decls, self.tcx);
                t.push(("ty", jn(self.ty(dty))));
                let mut arms = vec![];
                for (v, tgt) in targets.iter() {
                    arms.push(J::Arr(vec![js(v.to_string()), jn(tgt.as_usize())]));
                }
                t.push(("arms", J::Arr(arms)));
                t.push(("otherwise", jn(targets.otherwise().as_usize())));
            }
            TerminatorKind::Return => t.push(("k", js("return"))),
            TerminatorKind::Unreachable => t.push(("k", js("unreachable"))),
            TerminatorKind::UnwindResume => t.push(("k", js("resume"))),
            TerminatorKind::UnwindTerminate(_) => t.push(("k", js("abort"))),
            TerminatorKind::Drop { place, target, .. } => {
                t.push(("k", js("drop")));
                t.push(("p", self.place(body, place)));
                t.push(("target", jn(target.as_usize())));
            }
            TerminatorKind::Call { func, args, destination, target, .. } => {
                t.push(("k", js("call")));
                let ct = self.call_target(body_did, func, body);
                t.extend(ct);
                let v: Vec<J> = args.iter().map(|a| self.operand(body, &a.node)).collect();
                t.push(("args", J::Arr(v)));
                t.push(("dest", self.place(body, destination)));
                match target {
                    Some(b) => t.push(("target", jn(b.as_usize()))),
                    None => t.push(("target", J::Null)),
                }
            }
            TerminatorKind::TailCall { func, args, .. } => {
                t.push(("k", js("tailcall")));
                let ct = self.call_target(body_did, func, body);
                t.extend(ct);
                let v: Vec<J> = args.iter().map(|a| self.operand(body, &a.node)).collect();
                t.push(("args", J::Arr(v)));
            }
            TerminatorKind::Assert { cond, expected, msg, target, .. } => {
                t.push(("k", js("assert")));
                t.push(("cond", self.operand(body, cond)));
                t.push(("expected", J::Bool(*expected)));
                let (mk, ops): (&str, Vec<&Operand<'tcx>>) = match &**msg {
                    mir::AssertKind::BoundsCheck { len, index } => ("BoundsCheck", vec![len, index]),
                    mir::AssertKind::Overflow(_, a, b) => ("Overflow", vec![a, b]),
                    mir::AssertKind::OverflowNeg(a) => ("OverflowNeg", vec![a]),
                    mir::AssertKind::DivisionByZero(a) => ("DivisionByZero", vec![a]),
                    mir::AssertKind::RemainderByZero(a) => ("RemainderByZero", vec![a]),
                    mir::AssertKind::MisalignedPointerDereference { .. } => ("Misaligned", vec![]),
                    mir::AssertKind::NullPointerDereference => ("NullPtr", vec![]),
                    _ => ("Other", vec![]),
                };
                t.push(("msg", js(mk)));
                if let mir::AssertKind::Overflow(op, _, _) = &**msg {
                    t.push(("op", js(format!("{:?}", op))));
                }
                let v: Vec<J> = ops.into_iter().map(|a| self.operand(body, a)).collect();
                t.push(("ops", J::Arr(v)));
                t.push(("target", jn(target.as_usize())));
            }
            TerminatorKind::FalseEdge { real_target, .. } => {
                t.push(("k", js("goto")));
                t.push(("target", jn(real_target.as_usize())));
            }
            TerminatorKind::FalseUnwind { real_target, .. } => {
                t.push(("k", js("goto")));
                t.push(("target", jn(real_target.as_usize())));
            }
            other => {
                t.push(("k", js("other")));
                t.push(("s", js(format!("{:?}", other))));
            }
        }
        t.push(("ln", self.line(sp)));
        t.push(("exp", J::Bool(sp.from_expansion())));
        J::Obj(vec![
            ("stmts", J::Arr(stmts)),
            ("term", J::Obj(t)),
            ("cleanup", J::Bool(bb.is_cleanup)),
        ])
    }

    fn vis(&self, did: DefId) -> J {
        let v = self.tcx.visibility(did);
        match v {
            ty::Visibility::Public => js("pub"),
            ty::Visibility::Restricted(m) => {
                if m.is_top_level_module() {
                    js("crate")
                } else {
                    js(format!("in:{}", self.path_string(m)))
                }
            }
        }
    }

    fn body(&mut self, did: DefId, body: &Body<'tcx>) -> J {
        let tcx = self.tcx;
        let kind = tcx.def_kind(did);
        let mut o: Vec<(&'static str, J)> = vec![
            ("def", jn(self.def(did))),
            ("id", js(self.def_id_string(did))),
            ("path", js(self.path_string(did))),
            ("kind", js(format!("{:?}", kind))),
            ("span", self.span(body.span)),
            ("argc", jn(body.arg_count)),
        ];
        if matches!(kind, DefKind::Fn | DefKind::AssocFn) {
            o.push(("vis", self.vis(did)));
        }
        // generics (names of type and const parameters, parents first)
        let mut gens = vec![];
        let mut g = Some(tcx.generics_of(did));
        let mut chain = vec![];
        while let Some(gg) = g {
            chain.push(gg);
            g = gg.parent.map(|p| tcx.generics_of(p));
        }
        for gg in chain.into_iter().rev() {
            for p in &gg.own_params {
                let k = match p.kind {
                    ty::GenericParamDefKind::Lifetime => continue,
                    ty::GenericParamDefKind::Type { .. } => "type",
                    ty::GenericParamDefKind::Const { .. } => "const",
                };
                gens.push(J::Obj(vec![("n", js(p.name.to_string())), ("k", js(k))]));
            }
        }
        o.push(("generics", J::Arr(gens)));
        let locals: Vec<J> = body.local_decls.iter().map(|d| jn(self.ty(d.ty))).collect();
        o.push(("locals", J::Arr(locals)));
        // user variable names
        let mut names = vec![];
        for vdi in &body.var_debug_info {
            if let mir::VarDebugInfoContents::Place(p) = &vdi.value {
                names.push(J::Obj(vec![
                    ("n", js(vdi.name.to_string())),
                    ("p", self.place(body, p)),
                ]));
            }
        }
        o.push(("names", J::Arr(names)));
        let mut blocks = vec![];
        for bb in body.basic_blocks.iter() {
            blocks.push(self.block(did, body, bb));
        }
        o.push(("blocks", J::Arr(blocks)));
        J::Obj(o)
    }

    fn promoted(&mut self, did: DefId, body: &Body<'tcx>) -> J {
        let locals: Vec<J> = body.local_decls.iter().map(|d| jn(self.ty(d.ty))).collect();
        let mut blocks = vec![];
        for bb in body.basic_blocks.iter() {
            blocks.push(self.block(did, body, bb));
        }
        J::Obj(vec![("locals", J::Arr(locals)), ("blocks", J::Arr(blocks))])
    }
}

fn hex(b: &[u8]) -> String {
    let mut s = String::with_capacity(b.len() * 2);
    for x in b {
        let _ = write!(s, "{:02x}", x);
    }
    s
}

// ---------------------------------------------------------------- callbacks
struct Cb;

impl rustc_driver::Callbacks for Cb {
    fn after_analysis<'tcx>(
        &mut self,
        _c: &rustc_interface::interface::Compiler,
        tcx: TyCtxt<'tcx>,
    ) -> Compilation {
        let dir = match std::env::var("ZKV_FACTS_DIR") {
            Ok(d) => d,
            Err(_) => return Compilation::Continue,
        };
        let crate_name = tcx.crate_name(LOCAL_CRATE).to_string();
        if crate_name.starts_with("build_script") {
            return Compilation::Continue;
        }
        let mut cx = Cx {
            tcx,
            types: vec![],
            type_ix: HashMap::new(),
            defs: vec![],
            def_ix: HashMap::new(),
            workspace: std::env::var("ZKV_WORKSPACE_CRATES")
                .unwrap_or_default()
                .split(',')
                .filter(|s| !s.is_empty())
                .map(|s| s.to_string())
                .collect(),
        };
        let mut adts = vec![];
        let mut impls = vec![];
        let mut consts = vec![];
        let mut fns_nobody = vec![];
        let mut traits = vec![];
        let eff = tcx.effective_visibilities(());
        for ldid in tcx.hir_crate_items(()).definitions() {
            let did = ldid.to_def_id();
            match tcx.def_kind(did) {
                DefKind::Struct | DefKind::Enum | DefKind::Union => {
                    let adt = tcx.adt_def(did);
                    let mut variants = vec![];
                    for v in adt.variants().iter() {
                        let mut fields = vec![];
                        for f in v.fields.iter() {
                            let fty = tcx.type_of(f.did).instantiate_identity().skip_norm_wip();
                            fields.push(J::Obj(vec![
                                ("n", js(f.name.to_string())),
                                ("t", jn(cx.ty(fty))),
                                ("vis", cx.vis(f.did)),
                            ]));
                        }
                        variants.push(J::Obj(vec![
                            ("n", js(v.name.to_string())),
                            ("ctor", js(format!("{:?}", v.ctor_kind()))),
                            ("fields", J::Arr(fields)),
                        ]));
                    }
                    let gens: Vec<J> = tcx
                        .generics_of(did)
                        .own_params
                        .iter()
                        .filter(|p| !matches!(p.kind, ty::GenericParamDefKind::Lifetime))
                        .map(|p| js(p.name.to_string()))
                        .collect();
                    adts.push(J::Obj(vec![
                        ("def", jn(cx.def(did))),
                        ("path", js(cx.path_string(did))),
                        ("kind", js(format!("{:?}", tcx.def_kind(did)))),
                        ("vis", cx.vis(did)),
                        ("reachable", J::Bool(eff.is_reachable(ldid))),
                        ("exported", J::Bool(eff.is_exported(ldid))),
                        ("generics", J::Arr(gens)),
                        ("variants", J::Arr(variants)),
                        ("non_exhaustive", J::Bool(adt.is_variant_list_non_exhaustive()
                            || adt.variants().iter().any(|v| v.is_field_list_non_exhaustive()))),
                        ("span", cx.span(tcx.def_span(did))),
                    ]));
                }
                DefKind::Impl { of_trait } => {
                    let st = tcx.type_of(did).instantiate_identity().skip_norm_wip();
                    let mut o: Vec<(&'static str, J)> = vec![
                        ("id", js(cx.def_id_string(did))),
                        ("self_ty", jn(cx.ty(st))),
                        ("span", cx.span(tcx.def_span(did))),
                    ];
                    if of_trait {
                        let tr = tcx.impl_trait_ref(did).skip_binder();
                        o.push(("trait", js(cx.path_string(tr.def_id))));
                        let a = cx.generic_args(tr.args);
                        o.push(("trait_args", a));
                    }
                    let mut items = vec![];
                    for &it in tcx.associated_item_def_ids(did) {
                        let ai = tcx.associated_item(it);
                        let mut io: Vec<(&'static str, J)> = vec![
                            ("def", jn(cx.def(it))),
                            ("id", js(cx.def_id_string(it))),
                            ("name", js(ai.name().to_string())),
                            ("kind", js(format!("{:?}", tcx.def_kind(it)))),
                        ];
                        if matches!(tcx.def_kind(it), DefKind::AssocFn) {
                            io.push(("vis", cx.vis(it)));
                        }
                        items.push(J::Obj(io));
                    }
                    o.push(("items", J::Arr(items)));
                    impls.push(J::Obj(o));
                }
                DefKind::Trait => {
                    let mut items = vec![];
                    for &it in tcx.associated_item_def_ids(did) {
                        let ai = tcx.associated_item(it);
                        items.push(J::Obj(vec![
                            ("def", jn(cx.def(it))),
                            ("name", js(ai.name().to_string())),
                            ("has_default", J::Bool(ai.defaultness(tcx).has_value())),
                        ]));
                    }
                    traits.push(J::Obj(vec![
                        ("path", js(cx.path_string(did))),
                        ("vis", cx.vis(did)),
                        ("items", J::Arr(items)),
                    ]));
                }
                DefKind::Const { .. } | DefKind::AssocConst { .. } => {
                    let cty = tcx.type_of(did).instantiate_identity().skip_norm_wip();
                    let mut o: Vec<(&'static str, J)> = vec![
                        ("def", jn(cx.def(did))),
                        ("path", js(cx.path_string(did))),
                        ("ty", jn(cx.ty(cty))),
                        ("vis", cx.vis(did)),
                    ];
                    if tcx.generics_of(did).is_empty() {
                        if let Ok(v) = tcx.const_eval_poly(did) {
                            cx.const_value(&mut o, v, cty);
                        }
                    }
                    consts.push(J::Obj(o));
                }
                DefKind::Fn | DefKind::AssocFn => {
                    if !tcx.is_mir_available(did) {
                        fns_nobody.push(J::Obj(vec![
                            ("def", jn(cx.def(did))),
                            ("path", js(cx.path_string(did))),
                        ]));
                    }
                }
                _ => {}
            }
        }
        let mut bodies = vec![];
        for ldid in tcx.hir_body_owners() {
            let did = ldid.to_def_id();
            if !matches!(tcx.def_kind(did), DefKind::Fn | DefKind::AssocFn | DefKind::Closure) {
                continue;
            }
            let body = tcx.optimized_mir(did);
            let mut bj = cx.body(did, body);
            let proms = tcx.promoted_mir(did);
            let pv: Vec<J> = proms.iter().map(|pb| cx.promoted(did, pb)).collect();
            if let J::Obj(ref mut o) = bj {
                o.push(("promoted", J::Arr(pv)));
            }
            bodies.push(bj);
        }
        let out = J::Obj(vec![
            ("crate", js(crate_name.clone())),
            ("adts", J::Arr(adts)),
            ("impls", J::Arr(impls)),
            ("traits", J::Arr(traits)),
            ("consts", J::Arr(consts)),
            ("fns_without_body", J::Arr(fns_nobody)),
            ("bodies", J::Arr(bodies)),
            ("types", J::Arr(cx.types.clone())),
            ("defs", J::Arr(cx.defs.clone())),
        ]);
        let mut s = String::new();
        out.write(&mut s);
        let path = format!("{}/{}.json", dir, crate_name);
        std::fs::write(&path, s).expect("zkv-driver: cannot write fact file");
        Compilation::Continue
    }
}

fn main() {
    let mut args: Vec<String> = std::env::args().collect();
    // RUSTC_WORKSPACE_WRAPPER: argv[1] is the path of the real rustc.
    if args.len() > 1 && (args[1].ends_with("rustc") || args[1].contains("/rustc")) {
        args.remove(1);
    }
    rustc_driver::run_compiler(&args, &mut Cb);
}
