#!/usr/bin/env python3
"""selftest/mk.py <kind:mutants|preserving> <name> <expect or ''> <file> <<< JSON list of [old,new] pairs on stdin
Creates selftest/<kind>/<name>.diff from replacements applied to /repo (then reverted)."""
import json, subprocess, sys, os
kind, name, expect, path = sys.argv[1:5]
pairs = json.load(sys.stdin)
fp = os.path.join("/repo", path)
orig = open(fp).read()
s = orig
for old, new in pairs:
    assert s.count(old) >= 1, "pattern not found: %r" % old[:60]
    s = s.replace(old, new, 1)
open(fp, "w").write(s)
try:
    d = subprocess.run(["git", "-C", "/repo", "diff"], capture_output=True, text=True).stdout
finally:
    open(fp, "w").write(orig)
out = os.path.join(os.path.dirname(os.path.abspath(__file__)), kind, name + ".diff")
with open(out, "w") as f:
    if expect:
        f.write("# expect: %s\n" % expect)
    f.write(d)
print("wrote", out)
