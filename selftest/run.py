#!/usr/bin/env python3
"""Mutation self-test (development gate, not a registered check).

For every patch under selftest/mutants/*.diff (header lines `# expect: C01 C12` name the properties whose
check must fire) and selftest/preserving/*.diff (behaviour-preserving edits: every listed check must stay
silent): create a scratch git worktree of /repo outside /repo and /verif, apply the patch, confirm the
variant still compiles (the fact extraction *is* a `cargo check`), run the checks against the scratch
tree, remove the worktree again.
Usage: selftest/run.py [--only substr] [--props C01,C02] [--jobs N]
"""
import argparse, glob, json, os, re, shutil, subprocess, sys, tempfile, time

VERIF = os.path.dirname(os.path.dirname(os.path.abspath(__file__)))
ALL = ["C%02d" % i for i in range(1, 21)]


def sh(*a, **k):
    return subprocess.run(a, capture_output=True, text=True, **k)


def main():
    ap = argparse.ArgumentParser()
    ap.add_argument("--only", default="")
    ap.add_argument("--props", default="")
    ap.add_argument("--tier", default="quick")
    ap.add_argument("--jobs", type=int, default=5)
    ap.add_argument("--all-props", action="store_true", help="run every property against every mutant (false-alarm scan)")
    a = ap.parse_args()
    results = []
    pats = sorted(glob.glob(os.path.join(VERIF, "selftest", "mutants", "*.diff"))) + \
        sorted(glob.glob(os.path.join(VERIF, "selftest", "preserving", "*.diff"))) + \
        sorted(glob.glob(os.path.join(VERIF, "seeded", "*", "patch.diff")))
    todo = [p for p in pats if not a.only or any(o in p for o in a.only.split("|"))]
    import threading
    from concurrent.futures import ThreadPoolExecutor
    gitlock = threading.Lock()
    outlock = threading.Lock()

    def one(p):
        out = []
        txt = open(p).read()
        preserving = "/preserving/" in p
        m = re.search(r"^# expect: (.*)$", txt, re.M)
        expect = m.group(1).split() if m else []
        if "/seeded/" in p:
            meta = json.load(open(os.path.join(os.path.dirname(p), "meta.json")))
            expect = meta.get("expect_checks", [meta.get("property")])
        props = a.props.split(",") if a.props else (ALL if (preserving or a.all_props) else expect)
        wt = tempfile.mkdtemp(prefix="zkv-mut-")
        os.rmdir(wt)
        with gitlock:
            r = sh("git", "-C", "/repo", "worktree", "add", "--detach", wt, "HEAD")
        if r.returncode:
            return (os.path.relpath(p, VERIF), "PATCH-DOES-NOT-APPLY", ["worktree failed " + r.stderr[:200]]), out
        try:
            r = sh("git", "-C", wt, "apply", "--whitespace=nowarn", p)
            if r.returncode:
                out.append("!! %s does not apply: %s" % (os.path.basename(p), r.stderr.strip()[:300]))
                return (os.path.relpath(p, VERIF), "PATCH-DOES-NOT-APPLY", [r.stderr.strip()[:200]]), out
            fired, silent, broken = [], [], []
            reports = []
            for pid in props:
                if not os.path.exists(os.path.join(VERIF, "zkverif", "rules", pid.lower() + ".py")):
                    continue
                r = sh(os.path.join(VERIF, "check"), pid, "--tier", a.tier, "--repo", wt, cwd=VERIF,
                       env=dict(os.environ, ZKV_EVID_DIR=tempfile.gettempdir() + "/zkv-selftest-evid"))
                if "fact extraction failed" in (r.stderr + r.stdout):
                    broken.append(pid)
                    out.append(r.stderr[-1500:])
                    break
                if r.returncode == 0:
                    silent.append(pid)
                else:
                    fired.append(pid)
                    for line in r.stdout.splitlines():
                        if line.startswith("  rule=") and len(reports) < 6:
                            reports.append(pid + ": " + line.strip())
                    if not preserving and pid in expect:
                        for line in r.stdout.splitlines():
                            if line.startswith("  rule=") or line.startswith("    "):
                                out.append("      " + line.strip()[:220])
                    elif preserving or pid not in expect:
                        out.append("   [%s fired on %s]" % (pid, os.path.basename(p)))
                        for line in r.stdout.splitlines():
                            if line.startswith("  rule=") or line.startswith("    "):
                                out.append("      " + line.strip()[:220])
            name = os.path.relpath(p, VERIF)
            if broken:
                status = "DOES-NOT-COMPILE"
            elif preserving:
                status = "ok (silent)" if not fired else "FALSE-ALARM " + ",".join(fired)
            else:
                missed = [e for e in expect if e in silent]
                status = ("caught by " + ",".join(fired)) if fired and not missed else ("MISSED " + ",".join(missed) + (" (caught by " + ",".join(fired) + ")" if fired else ""))
            out.append("%-60s %s" % (name, status))
            return (name, status, reports), out
        finally:
            with gitlock:
                sh("git", "-C", "/repo", "worktree", "remove", "--force", wt)
            shutil.rmtree(wt, ignore_errors=True)

    def wrapped(p):
        try:
            res, out = one(p)
        except Exception as e:
            res, out = (os.path.relpath(p, VERIF), "DOES-NOT-COMPILE (runner error %r)" % (e,), []), []
        with outlock:
            for l in out:
                print(l)
            sys.stdout.flush()
        return res

    with ThreadPoolExecutor(max_workers=a.jobs) as ex:
        results = list(ex.map(wrapped, todo))
    bad = [r for r in results if "MISSED" in r[1] or "FALSE-ALARM" in r[1] or "DOES-NOT" in r[1] or "PATCH" in r[1]]
    print("\n%d patches, %d problems" % (len(results), len(bad)))
    lr = os.path.join(VERIF, "selftest", "last_result.json")
    merged = {}
    try:
        for n, st, rp in json.load(open(lr)).get("results", []):
            merged[n] = (n, st, rp)
    except (OSError, ValueError):
        pass
    for n, st, rp in results:
        merged[n] = (n, st, rp)
    with open(lr, "w") as f:
        json.dump({"at": time.strftime("%Y-%m-%dT%H:%M:%S"), "results": [merged[k] for k in sorted(merged)]}, f, indent=1)
    return 1 if bad else 0


sys.exit(main())
