#!/bin/sh
# MANIFEST.setup_cmd: build the fact extractor from files on disk only (offline).
set -e
cd "$(dirname "$0")"
export CARGO_NET_OFFLINE=true
(cd driver && cargo +nightly build --release --offline 2>&1 | tail -3)
python3 -m compileall -q zkverif >/dev/null
if [ -d witness ]; then cp /repo/Cargo.lock witness/Cargo.lock 2>/dev/null || true; fi
test -x driver/target/release/zkv-driver
echo "setup ok"
