claim("C07", "Exactness of Signature::verify against the Pointcheval-Sanders relation and completeness of every producer chain as normal-form identities for symbolic N (value reconstruction + polynomial/bilinear normal forms).",
      "Decides: acceptance Boolean == R_ps; producer value terms == R_sign/R_rand/R_blind/R_bsign/R_unblind; chains verify identically (side condition: randomiser != 0). Not decided: EUF-CMA (no forgery after changing a coordinate) - the check shows every coordinate enters the verification polynomial.",
      "MIR value reconstruction (gated SSA terms, inlining) + polynomial/bilinear normal-form identity against an oracle relation", "5/C07")
claim("C08", "who-may-construct over the whole type-checked program for the blind-signable wrapper, exactness of its single constructing verifier, visibility facts, and the blind/sign/unblind chain identity.",
      "Decides: VerifiedBlindedMessage is built only in the accepting arm of the request-proof verifier, under exactly R_cp(g1,Y;proof), wrapping the proof's own commitment; every signer signs its own verified parameter; chain identity. Not decided: Schnorr knowledge soundness.",
      "who-may-construct / who-may-call over resolved MIR + term exactness + visibility tables", "5/C08")
claim("C09", "Commitment constructor and opening verifier equal the Pedersen map / single-equation relation as normal-form identities for symbolic group and length.",
      "Decides: Commitment::new == bf*h + <gs,m>; verify_opening == (R_commit == self); parameter wiring. Not decided: binding/hiding.",
      "MIR value reconstruction + linear-form normal-form identity", "5/C09")
claim("C11", "Acceptance Booleans of the three proof verifiers equal R_cp / R_srp / R_sp exactly (both directions) for symbolic G and N.",
      "Decides: conjunct-for-conjunct identity with the reference relations over role-bound atoms; payload provenance. Not decided: special soundness (paper argument over the relation shown).",
      "MIR value reconstruction + BDD over normalised equality/pairing atoms compared with oracle", "5/C11")
claim("C12", "Reconstructed Fiat-Shamir transcripts: every non-response atom of every proof type (enumerated from the wire form) and every field of every ChallengeInput type reaches the hash; builder/proof and prover/verifier transcripts are identical terms; sink integrity.",
      "Decides: coverage and agreement of transcripts for all 21 ChallengeInput impls, 4 builder/proof pairs, 2 zkAbacus proofs. Not decided: collision resistance of SHA3.",
      "hasher-term reconstruction with loop summaries + type-directed atom enumeration (must-reach-sink)", "5/C12")
