claim("C07", "Exactness of Signature::verify against the Pointcheval-Sanders relation and completeness of every producer chain as normal-form identities for symbolic N (value reconstruction + polynomial/bilinear normal forms).",
      "Decides: acceptance Boolean == R_ps; producer value terms == R_sign/R_rand/R_blind/R_bsign/R_unblind (incl. re-randomising a blinded signature and the public wrappers); every public producer is covered; chains verify identically (side condition: randomiser != 0). Not decided: EUF-CMA (no forgery after changing a coordinate) - the check shows every coordinate enters the verification polynomial.",
      "MIR value reconstruction (gated SSA terms, inlining) + polynomial/bilinear normal-form identity against an oracle relation", "5/C07")
claim("C08", "who-may-construct over the whole type-checked program for the blind-signable wrapper, exactness of its single constructing verifier, visibility facts, and the blind/sign/unblind chain identity.",
      "Decides: VerifiedBlindedMessage is built only in the accepting arm of the request-proof verifier, under exactly R_cp(g1,Y;proof), wrapping the proof's own commitment; every signer signs its own verified parameter; chain identity. Not decided: Schnorr knowledge soundness.",
      "who-may-construct / who-may-call over resolved MIR + term exactness + visibility tables", "5/C08")
claim("C09", "Commitment constructor and opening verifier equal the Pedersen map / single-equation relation as normal-form identities for symbolic group and length.",
      "Decides: Commitment::new == bf*h + <gs,m>; verify_opening == (R_commit == self); parameter wiring. Not decided: binding/hiding.",
      "MIR value reconstruction + linear-form normal-form identity", "5/C09")
claim("C11", "Acceptance Booleans of the three proof verifiers equal R_cp / R_srp / R_sp exactly (both directions) for symbolic G and N; every element reaching them from the wire passed the checked (on-curve, in-subgroup) decoder.",
      "Decides: conjunct-for-conjunct identity with the reference relations over role-bound atoms; payload provenance. Not decided: special soundness (paper argument over the relation shown).",
      "MIR value reconstruction + BDD over normalised equality/pairing atoms compared with oracle", "5/C11")
claim("C12", "Reconstructed Fiat-Shamir transcripts: every non-response atom of every proof type (enumerated from the wire form) and every field of every ChallengeInput type reaches the hash; builder/proof and prover/verifier transcripts are identical terms; sink integrity.",
      "Decides: coverage and agreement of transcripts for all 21 ChallengeInput impls, 4 builder/proof pairs, 2 zkAbacus proofs. Not decided: collision resistance of SHA3.",
      "hasher-term reconstruction with loop summaries + type-directed atom enumeration (must-reach-sink)", "5/C12")
claim("C01", "Exactness of EstablishProof::verify against R_est, Fiat-Shamir coverage of every non-response wire atom, statement binding, payload/initialize provenance, who-may-construct/sign facts; shared necessary conditions: wire elements pass the checked (in-subgroup) decoder, balance and channel-id encodings are exact and injective.",
      "Decides: acceptance == R_est (conjunct-for-conjunct), every first-message atom hashed, initialize signs exactly the verified close-state commitment. Not decided: soundness of the Schnorr/ROM argument for R_est (paper argument over the relation shown).",
      "MIR value reconstruction + BDD/polynomial normal-form identity against an oracle relation; must-reach-sink transcript rule; who-may-construct", "5/C01")
claim("C02", "Exactness of PayProof::verify against R_pay (incl. both range constraints and the signed balance update), transcript coverage, payload and allow_payment wiring; shared necessary conditions: wire elements pass the checked (in-subgroup) decoder, balance / amount / channel-id encodings are exact.",
      "Decides: acceptance == R_pay with equality chains compared by row space; range constraints linked to the new balances; returned commitment is the old-lock proof's. Not decided: cryptographic soundness, token unforgeability.",
      "MIR value reconstruction with loop-recurrence summaries + normal-form identity against an oracle relation", "5/C02")
claim("C03", "Typestate by value reconstruction of all customer transitions: verify-then-transition against R_ps on the stage's own message, inert refusal, inductive (signature,state) pairing invariant at every construction site, revocation release discipline.",
      "Decides the per-step facts for every input (any reply that does not verify on exactly the expected message takes the refusal arm and returns self unchanged); histories follow by induction over transitions. Assumes signature unforgeability and faithful storage (C20).",
      "typestate / invariant-establishment analysis over reconstructed MIR terms + who-may-call/construct", "5/C03")
claim("C05", "complete_payment accept condition == R_open on the stored commitment; refusal inert; RevocationPair hash invariant established at every construction site and decode path.",
      "Decides: token iff opening; every RevocationPair value has lock == from_bytes(SHA3(secret||index)) on the canonical branch. Not decided: hash preimage resistance, Pedersen binding.",
      "MIR value reconstruction + invariant establishment over all construction sites", "5/C05")
claim("C13", "Range prover domain/no-panic by intervals for all i64, verifier exactness against R_range with loop recurrences, evaluated constants U^L = 2^63, parameter generation/validation exactness.",
      "Decides: verifier accepts iff all L digit proofs satisfy R_sp under the parameters' key and sum U^j rs_j == expected; prover refuses iff negative and cannot panic; parameters sign exactly 0..U-1. Not decided: digit-signature unforgeability.",
      "MIR value reconstruction with loop summaries + interval abstract interpretation", "5/C13")
claim("C17", "Totality of balance/amount arithmetic by interval + octagon abstract interpretation for all 64-bit inputs, exact Ok/Err regions decided in the octagon domain, exact linear value forms, invariant establishment at every construction site (decoders included), and a sweep of every public / trait method of the four arithmetic types for undischarged panic obligations.",
      "Decides: no reachable overflow/abs/cast/unwrap panic; Ok exactly on [0,2^63-1] with the exact result; encoding is the ring map. Uses the Balance invariant only because every construction site is shown to establish it.",
      "interval + octagon abstract interpretation over reconstructed MIR terms; who-may-construct invariant establishment", "5/C17")
claim("C04", "Completeness identities for establish and pay (verifier acceptance of the honest provers' output terms normalises to TRUE under a library-generated merchant configuration), exact ledger step, clean refusal, discharge of every input-dependent panic obligation on the honest prover path, and expressibility of the whole documented range (balance / amount constructors accept exactly 0..=2^63-1; encodings exact).",
      "Decides per-step facts for all inputs; histories follow by induction. Pay completeness uses the ledger hypothesis established by rule `ledger` + C17 and the digit-decomposition lemma (recorded). Not decided: RNG liveness.",
      "MIR value reconstruction + normal-form identities (completeness), interval/octagon discharge of panic obligations", "5/C04")
claim("C06", "Every component of both verification tuples reaches the Fiat-Shamir hash or an atom of the exact acceptance relation; Context hashes its whole input; the close check covers every close-state field; ChannelId::to_scalar is the full-width byte-linear embedding of the 32-byte id.",
      "Decides the structural necessary condition (dependency of acceptance on every tuple component, in the way the relation says). Not decided: the probabilistic rejection itself (2^-255 slack).",
      "transcript reconstruction (must-reach-sink) + exact-relation membership + byte-linear form of the id encoding", "5/C06")
claim("C10", "R_resp wiring of the provers, completeness of all four proof kinds as normal-form identities (symbolic messages, lengths, value), identical builder/proof transcripts, documented patterns as polynomial identities of the response term.",
      "Decides: verify(honest proof) == TRUE (side condition: randomisers != 0), same challenge by transcript identity. Uses the recorded digit-decomposition lemma.",
      "MIR value reconstruction + polynomial/bilinear normal-form identities", "5/C10")
claim("C14", "Every atom of every customer message (wire-form enumeration) is a documented disclosure or masked by randomness drawn in the same call, independent of the masked secret; no published scalar is the mask of a hidden slot; signatures are re-randomised before being shown; secrets never appear verbatim.",
      "Decides necessary structural conditions only. NOT decided: inequality of run-time values across sessions, hiding, zero knowledge, unlinkability.",
      "field-sensitive provenance over reconstructed terms (freshness / masking positions), who-may-construct", "5/C14")
claim("C15", "Wire models (writer sequence, reader sequence, codec per field, try_from proxies) extracted from derive-generated and hand-written serde MIR; writer == reader; checked/unchecked twins agree in names, order and types and the validating conversion carries field i to field i; every invariant type decodes only through a validator whose Ok condition equals the invariant table; only checked leaf decoders on decode paths.",
      "Decides codec symmetry and decode-time invariants for all inputs. Trusts bls12_381's checked decoders and bincode/serde framing.",
      "sibling-agreement analysis of serializer/deserializer MIR + validator exactness by term normal forms", "5/C15")
claim("C16", "Crate-local call-graph closure of all decode entry points: every panic source is a discharged obligation, every allocation sink has a constant / const-generic / min-bounded size, no length-prefixed std collections in wire types.",
      "Decides the crate-local part only. NOT decided: panics/allocations inside bincode, serde, serde_big_array, bls12_381, sha3, base64 (outside the analysed program).",
      "call-graph reachability + obligation discharge + taint of allocation sizes", "5/C16")
claim("C18", "Nonce != close tag established at the single construction site for every randomness stream; layouts differ exactly in the nonce/close-tag slot; ChannelId::new binds all five inputs deterministically.",
      "Decides the invariant and layout facts. Not decided: collision resistance; the 1/q slack of cross-layout verification.",
      "invariant establishment (who-may-construct + guards on all paths) + transcript reconstruction", "5/C18")
claim("C19", "Generators return only guarded values on every path (rejection loops summarised as value-such-that-guard), key-generation wiring equals R_keygen, decode-time validators accept generated values identically.",
      "Decides well-formedness for every randomness stream (guards hold on all paths). Not decided: loop termination, uniformity.",
      "guard/dominance facts over reconstructed terms with loop summaries + validator identities", "5/C19")
claim("C20", "Storage of customer stages loses nothing (complete symmetric codecs over the stored type closure, decode twins agreeing slot for slot and converted in place), refuses nothing legitimate (generators imply validators), and stage methods read no hidden state.",
      "Decides structural necessary conditions. NOT decided: byte-identical continuation as an executed fact.",
      "sibling-agreement of codec MIR over the stored-type closure + call-graph scan for hidden state", "5/C20")
