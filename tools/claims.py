claim("C07", "Exactness of Signature::verify against the Pointcheval-Sanders relation and completeness of every producer chain as normal-form identities for symbolic N (value reconstruction + polynomial/bilinear normal forms).",
      "Decides: acceptance Boolean == R_ps; producer value terms == R_sign/R_rand/R_blind/R_bsign/R_unblind; chains verify identically (side condition: randomiser != 0). Not decided: EUF-CMA (no forgery after changing a coordinate) - the check shows every coordinate enters the verification polynomial.",
      "MIR value reconstruction (gated SSA terms, inlining) + polynomial/bilinear normal-form identity against an oracle relation", "5/C07")
claim("C08", "who-may-construct over the whole type-checked program for the blind-signable wrapper, exactness of its single constructing verifier, visibility facts, and the blind/sign/unblind chain identity.",
      "Decides: VerifiedBlindedMessage is built only in the accepting arm of the request-proof verifier, under exactly R_cp(g1,Y;proof), wrapping the proof's own commitment; every signer signs its own verified parameter; chain identity. Not decided: Schnorr knowledge soundness.",
      "who-may-construct / who-may-call over resolved MIR + term exactness + visibility tables", "5/C08")
claim("C09", "Commitment constructor and opening verifier equal the Pedersen map / single-equation relation as normal-form identities for symbolic group and length.",
      "Decides: Commitment::new == bf*h + <gs,m>; verify_opening == (R_commit == self); parameter wiring. Not decided: binding/hiding.",
      "MIR value reconstruction + linear-form normal-form identity", "5/C09")
claim("C11", "Acceptance Booleans of the three proof verifiers equal R_cp / R_srp / R_sp exactly (both directions) for symbolic G and N.",
      "Decides: conjunct-for-conjunct identity with the reference relations over role-bound atoms; payload provenance. Not decided: special soundness (paper argument over the relation shown).",
      "MIR value reconstruction + BDD over normalised equality/pairing atoms compared with oracle", "5/C11")
claim("C12", "Reconstructed Fiat-Shamir transcripts: every non-response atom of every proof type (enumerated from the wire form) and every field of every ChallengeInput type reaches the hash; builder/proof and prover/verifier transcripts are identical terms; sink integrity.",
      "Decides: coverage and agreement of transcripts for all 21 ChallengeInput impls, 4 builder/proof pairs, 2 zkAbacus proofs. Not decided: collision resistance of SHA3.",
      "hasher-term reconstruction with loop summaries + type-directed atom enumeration (must-reach-sink)", "5/C12")
claim("C01", "Exactness of EstablishProof::verify against R_est, Fiat-Shamir coverage of every non-response wire atom, statement binding, payload/initialize provenance, who-may-construct/sign facts.",
      "Decides: acceptance == R_est (conjunct-for-conjunct), every first-message atom hashed, initialize signs exactly the verified close-state commitment. Not decided: soundness of the Schnorr/ROM argument for R_est (paper argument over the relation shown).",
      "MIR value reconstruction + BDD/polynomial normal-form identity against an oracle relation; must-reach-sink transcript rule; who-may-construct", "5/C01")
claim("C02", "Exactness of PayProof::verify against R_pay (incl. both range constraints and the signed balance update), transcript coverage, payload and allow_payment wiring.",
      "Decides: acceptance == R_pay with equality chains compared by row space; range constraints linked to the new balances; returned commitment is the old-lock proof's. Not decided: cryptographic soundness, token unforgeability.",
      "MIR value reconstruction with loop-recurrence summaries + normal-form identity against an oracle relation", "5/C02")
claim("C03", "Typestate by value reconstruction of all customer transitions: verify-then-transition against R_ps on the stage's own message, inert refusal, inductive (signature,state) pairing invariant at every construction site, revocation release discipline.",
      "Decides the per-step facts for every input (any reply that does not verify on exactly the expected message takes the refusal arm and returns self unchanged); histories follow by induction over transitions. Assumes signature unforgeability and faithful storage (C20).",
      "typestate / invariant-establishment analysis over reconstructed MIR terms + who-may-call/construct", "5/C03")
claim("C05", "complete_payment accept condition == R_open on the stored commitment; refusal inert; RevocationPair hash invariant established at every construction site and decode path.",
      "Decides: token iff opening; every RevocationPair value has lock == from_bytes(SHA3(secret||index)) on the canonical branch. Not decided: hash preimage resistance, Pedersen binding.",
      "MIR value reconstruction + invariant establishment over all construction sites", "5/C05")
claim("C13", "Range prover domain/no-panic by intervals for all i64, verifier exactness against R_range with loop recurrences, evaluated constants U^L = 2^63, parameter generation/validation exactness.",
      "Decides: verifier accepts iff all L digit proofs satisfy R_sp under the parameters' key and sum U^j rs_j == expected; prover refuses iff negative and cannot panic; parameters sign exactly 0..U-1. Not decided: digit-signature unforgeability.",
      "MIR value reconstruction with loop summaries + interval abstract interpretation", "5/C13")
claim("C17", "Totality of balance/amount arithmetic by interval + octagon abstract interpretation for all 64-bit inputs, exact Ok/Err regions decided in the octagon domain, exact linear value forms, invariant establishment at every construction site (decoders included).",
      "Decides: no reachable overflow/abs/cast/unwrap panic; Ok exactly on [0,2^63-1] with the exact result; encoding is the ring map. Uses the Balance invariant only because every construction site is shown to establish it.",
      "interval + octagon abstract interpretation over reconstructed MIR terms; who-may-construct invariant establishment", "5/C17")
