#!/bin/bash
# tools/confirm_batch.sh <jobs> <seed dir>...   -- confirm several seeds in parallel.
# Like confirm_seed.sh, but each parallel slot keeps one cargo target directory (under /tmp, removed at the end)
# so that only the workspace crates are rebuilt per seed.  The demo command is read from meta.json (how_to_run_demo).
set -u
J=$1; shift
POOL=$(mktemp -d /tmp/confirm-pool-XXXX)
export POOL
one(){
  D=$(realpath "$1"); SLOT=$2
  W=$(mktemp -d /tmp/confirm-XXXX); rmdir $W
  T=$POOL/slot$SLOT
  git -C /repo worktree add --detach $W HEAD -q || return 2
  cd $W
  export CARGO_NET_OFFLINE=true CARGO_TARGET_DIR=$T
  OUT=$D/confirmed.txt
  DEMO=$(python3 -c "import json,sys,re; m=json.load(open('$D/meta.json'))['how_to_run_demo']; m=re.sub(r'^.*?cargo test','',m); m=m.replace('--offline',''); m=re.sub(r'\(.*$','',m); m=re.sub(r'#.*$','',m); print(m.split('&&')[0].split(';')[0].strip())")
  echo "confirmation run $(date -u +%FT%TZ) against /repo HEAD $(git -C /repo rev-parse --short HEAD)" > $OUT
  if ! git apply --whitespace=nowarn $D/patch.diff; then echo "PATCH DOES NOT APPLY" >> $OUT; else
  echo "== existing suite with patch" >> $OUT
  cargo test --workspace --no-fail-fast --offline 2>&1 | grep -E "^test result|FAILED|panicked|^error" >> $OUT
  if [ -f $D/demo.diff ]; then git apply --whitespace=nowarn $D/demo.diff || echo "DEMO DOES NOT APPLY" >> $OUT; fi
  echo "== demo with patch (expect failure): cargo test --offline $DEMO" >> $OUT
  cargo test --offline $DEMO 2>&1 | grep -E "^test |^test result|panicked|error(\[|:)" | head -30 >> $OUT
  git apply -R --whitespace=nowarn $D/patch.diff || echo "CANNOT REVERT PATCH" >> $OUT
  echo "== demo without patch (expect pass): cargo test --offline $DEMO" >> $OUT
  cargo test --offline $DEMO 2>&1 | grep -E "^test |^test result|panicked|error(\[|:)" | head -30 >> $OUT
  fi
  cd /; git -C /repo worktree remove --force $W; rm -rf $W
}
export -f one
ARGS=(); for a in "$@"; do ARGS+=("$(realpath "$a")"); done
for ((s=0; s<J; s++)); do
  ( for ((k=s; k<${#ARGS[@]}; k+=J)); do one "${ARGS[$k]}" $s; done ) &
done
wait
rm -rf $POOL
