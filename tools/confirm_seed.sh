#!/bin/bash
# tools/confirm_seed.sh <seed dir containing patch.diff demo.diff meta.json> <demo cargo args...>
# Confirms in a scratch worktree: (1) patch applies, (2) existing suite passes with the patch,
# (3) demo FAILS with the patch, (4) demo PASSES without it.  Writes <seed dir>/confirmed.txt
set -u
D=$(realpath "$1"); shift
W=$(mktemp -d /tmp/confirm-XXXX); rmdir $W
T=$W-target
git -C /repo worktree add --detach $W HEAD -q || exit 2
cleanup(){ git -C /repo worktree remove --force $W; rm -rf $T $W; }
trap cleanup EXIT
cd $W
export CARGO_NET_OFFLINE=true CARGO_TARGET_DIR=$T
OUT=$D/confirmed.txt
echo "confirmation run $(date -u +%FT%TZ) against /repo HEAD $(git -C /repo rev-parse --short HEAD)" > $OUT
git apply --whitespace=nowarn $D/patch.diff || { echo "PATCH DOES NOT APPLY" >> $OUT; exit 3; }
echo "== existing suite with patch" >> $OUT
cargo test --workspace --no-fail-fast --offline 2>&1 | grep -E "^test result|FAILED|panicked" >> $OUT
S1=$(grep -c "FAILED\|failed;" $OUT)
if [ -f $D/demo.diff ]; then git apply --whitespace=nowarn $D/demo.diff || { echo "DEMO DOES NOT APPLY" >> $OUT; exit 4; }; fi
echo "== demo with patch (expect failure): cargo test --offline $*" >> $OUT
cargo test --offline "$@" 2>&1 | grep -E "^test |^test result|panicked|error(\[|:)" | head -30 >> $OUT
git apply -R --whitespace=nowarn $D/patch.diff || { echo "CANNOT REVERT PATCH" >> $OUT; exit 5; }
echo "== demo without patch (expect pass): cargo test --offline $*" >> $OUT
cargo test --offline "$@" 2>&1 | grep -E "^test |^test result|panicked|error(\[|:)" | head -30 >> $OUT
cat $OUT
