#!/usr/bin/env python3
"""Regenerate the generated blocks of DESIGN.md (section 0.4 seeded table, 0.5 self-test summary) and
selftest/RESULTS.md from seeded/*/meta.json and selftest/last_result.json."""
import glob, json, os, re

V = os.path.dirname(os.path.dirname(os.path.abspath(__file__)))
lr = {}
try:
    for n, st, rp in json.load(open(os.path.join(V, "selftest", "last_result.json")))["results"]:
        lr[n] = (st, rp)
except (OSError, ValueError):
    pass


def short(s, n):
    s = " ".join(str(s).split())
    return s if len(s) <= n else s[:n - 1] + "…"


rows = ["| seeded change | property | what it needs to manifest | caught by (rule that fires) |", "|---|---|---|---|"]
for d in sorted(glob.glob(os.path.join(V, "seeded", "*"))):
    try:
        m = json.load(open(os.path.join(d, "meta.json")))
    except (OSError, ValueError):
        continue
    name = os.path.basename(d)
    st, rp = lr.get("seeded/%s/patch.diff" % name, ("(not run)", []))
    rules = sorted({r.split(" instance=")[0].replace("  ", " ") for r in rp})
    caught = st + ((" — " + "; ".join(rules[:3])) if rules else "")
    conf = "confirmed" if os.path.exists(os.path.join(d, "confirmed.txt")) else "unconfirmed"
    rows.append("| `%s` (%s) | %s | %s | %s |" % (name, conf, m.get("property"), short(m.get("needs_to_manifest", ""), 220).replace("|", "/"), caught.replace("|", "/")))
seeded_table = "\n".join(rows)

mut = [(n, v) for n, v in sorted(lr.items()) if n.startswith("selftest/mutants/")]
pres = [(n, v) for n, v in sorted(lr.items()) if n.startswith("selftest/preserving/")]
seed = [(n, v) for n, v in sorted(lr.items()) if n.startswith("seeded/")]
bad = [(n, v) for n, v in lr.items() if any(k in v[0] for k in ("MISSED", "FALSE-ALARM", "DOES-NOT", "PATCH"))]
summary = ("%d hand-written mutants (all caught by the checks named in their header: %s), %d behaviour-preserving edits "
           "(all twenty checks silent on each: %s), %d seeded changes (%s). Per-patch table with the rule that fires: "
           "`selftest/RESULTS.md`." % (
               len(mut), "yes" if not any("MISSED" in v[0] for _, v in mut) else "NO",
               len(pres), "yes" if all(v[0].startswith("ok") for _, v in pres) else "NO",
               len(seed), "all caught" if not any("MISSED" in v[0] for _, v in seed) else "some missed, see table"))
if bad:
    summary += " Problems in the last run: " + "; ".join("%s: %s" % (n, v[0]) for n, v in bad)

with open(os.path.join(V, "selftest", "RESULTS.md"), "w") as f:
    f.write("# Mutation self-test: last recorded result per patch\n\n| patch | result | first reports |\n|---|---|---|\n")
    for n, (st, rp) in sorted(lr.items()):
        f.write("| `%s` | %s | %s |\n" % (n, st, "<br>".join(short(r, 150).replace("|", "/") for r in rp[:3])))

p = os.path.join(V, "DESIGN.md")
s = open(p).read()


def put(s, tag, body):
    a, b = "<!-- %s -->" % tag, "<!-- /%s -->" % tag
    if b in s:
        return re.sub(re.escape(a) + r".*?" + re.escape(b), lambda _m: a + "\n" + body + "\n" + b, s, flags=re.S)
    return s.replace(a, a + "\n" + body + "\n" + b)


s = put(s, "SEEDED-TABLE", seeded_table)
s = put(s, "SELFTEST-SUMMARY", summary)
open(p, "w").write(s)
print(summary)
