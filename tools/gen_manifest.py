#!/usr/bin/env python3
"""Generate /verif/MANIFEST.json from the table below (single source of truth for claims)."""
import json, os
VERIF = os.path.dirname(os.path.dirname(os.path.abspath(__file__)))

COMMON_NOTE = ("Static analysis of rustc MIR facts re-extracted from /repo's working tree on every run. Trusted base: rustc's MIR/type tables, "
               "the foreign-call model table (documented contracts of bls12_381/ff/group/sha3/arrayvec/serde/std), cryptographic hardness assumptions. "
               "Decides that the code has the stated structure for all inputs; does not execute the library.")

CLAIMS = {}

def claim(pid, text, note, technique, design):
    CLAIMS[pid] = dict(text=text, note=note, technique=technique, design=design)

# (filled in below as checks are built)
exec(open(os.path.join(VERIF, "tools", "claims.py")).read())

NOT_APPLICABLE = {}
exec(open(os.path.join(VERIF, "tools", "not_applicable.py")).read())

props = [json.loads(l)["id"] for l in open(os.path.join(VERIF, "properties.jsonl"))]
checks = []
for pid in props:
    if pid not in CLAIMS:
        continue
    c = CLAIMS[pid]
    checks.append({
        "property_id": pid,
        "quick_cmd": "./check %s --tier quick" % pid,
        "thorough_cmd": "./check %s --tier thorough" % pid,
        "evidence_file": "evidence/%s.json" % pid,
        "replay_cmd_template": "./check %s --replay {path}" % pid,
        "engine": "zkverif",
        "level_claimed": {"category": "other", "text": c["text"], "design_ref": c["design"]},
        "level_note": c["note"] + " " + COMMON_NOTE,
        "technique": c["technique"],
    })
na = [{"property_id": p, "reason": NOT_APPLICABLE[p]} for p in props if p not in CLAIMS]
m = {
    "version": 1,
    "setup_cmd": "./setup.sh",
    "hooks": {
        "guard": "boltlabs_inc_libzkchannels_crypto_verif",
        "enable": "none needed: static analysis observes the source directly (no instrumentation commits)",
        "baseline_off_cmd": "cd /repo && cargo test --workspace --no-fail-fast --offline",
        "source_commits": [],
        "add_only": True,
    },
    "engines": [
        {"name": "zkv-driver", "path": "driver/", "serves_properties": props,
         "kind_free_text": "rustc_private driver dumping type/impl tables and structured MIR (opt-level 0) as JSON facts"},
        {"name": "zkverif", "path": "zkverif/", "serves_properties": props,
         "kind_free_text": "Python static analyses over the facts: call graph / who-may-construct, value reconstruction over gated single-assignment terms with loop summaries, polynomial/linear-form/BDD normal forms, transcript extraction, interval analysis, codec agreement"},
        {"name": "witness", "path": "witness/", "serves_properties": ["C01", "C03", "C05", "C08", "C15", "C18"],
         "kind_free_text": "compile_fail doctest witnesses (type-level: unforgeable constructors, move-only stages)"},
    ],
    "checks": checks,
    "not_applicable": na,
    "notes": "All checks share one fact extraction per /repo tree hash (content-addressed cache under .cache/, rebuilt whenever any file of /repo changes). "
             "Known findings: known_findings.jsonl. Mutation self-test: selftest/run.py (development gate).",
}
json.dump(m, open(os.path.join(VERIF, "MANIFEST.json"), "w"), indent=1)
print("claimed:", [c["property_id"] for c in checks])
print("not applicable:", [n["property_id"] for n in na])
