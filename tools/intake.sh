#!/bin/bash
# tools/intake.sh <out dir of a sub-agent> <seed name>: store a sub-agent's deliverables as seeded/<name>/ (unconfirmed).
set -e
S=$1; N=$2; D=/verif/seeded/$N
mkdir -p $D
cp $S/patch.diff $S/demo.diff $D/
P=${N%%-*}
python3 - "$S/meta.json" "$D/meta.json" "$P" <<'PY'
import json,sys
m=json.load(open(sys.argv[1])); m['property']=sys.argv[3]; m.setdefault('expect_checks',[sys.argv[3]])
m['how_to_run_demo']=m['how_to_run_demo'].replace('CARGO_NET_OFFLINE=true ','')
json.dump(m,open(sys.argv[2],'w'),indent=1)
PY
git -C /repo apply --check $D/patch.diff && echo "patch applies" ; git -C /repo apply --check $D/demo.diff && echo "demo applies"
