#!/usr/bin/env python3
"""Development aid (not a registered check): a syntactic mutation campaign against /repo.

  tools/mutation_campaign.py gen  <outdir> [--sample N] [--seed S]   enumerate one-token mutants of the non-test
                                                                      library code, write <outdir>/cand/NNNN.diff
  tools/mutation_campaign.py run  <outdir> [--jobs J]                 for each candidate: scratch worktree, apply,
                                                                      `cargo test --workspace --offline`; mutants
                                                                      that still compile and pass the 104 tests
                                                                      are copied to <outdir>/survivors/
  tools/mutation_campaign.py probe <outdir> [--jobs J]                run all twenty quick checks on each survivor,
                                                                      write <outdir>/report.txt (silent survivors
                                                                      need manual triage: equivalent mutant or a gap)

Scratch worktrees and target directories live under <outdir> (outside /repo and /verif) and are removed at the end.
"""
import argparse, glob, os, random, re, shutil, subprocess, sys, tempfile, threading
from concurrent.futures import ThreadPoolExecutor

VERIF = os.path.dirname(os.path.dirname(os.path.abspath(__file__)))
REPO = "/repo"
SRC = ["zkchannels-crypto/src", "zkabacus-crypto/src"]

OPS = [
    (r" == ", " != "), (r" != ", " == "), (r" < ", " <= "), (r" <= ", " < "), (r" > ", " >= "), (r" >= ", " > "),
    (r" && ", " || "), (r" \|\| ", " && "), (r" \+ ", " - "), (r" - ", " + "), (r" \* ", " + "),
    (r"\.iter\(\)", ".iter().skip(1)"), (r"\btrue\b", "false"), (r"\bfalse\b", "true"),
    (r"\bVerified\b", "Failed"), (r"\bis_identity\(\)", "is_identity().not()"),
    (r"\.zip\(", ".zip_SKIP("), (r"\bi64::MAX\b", "(i64::MAX - 1)"), (r"\bu64::MAX\b", "(u64::MAX - 1)"),
    (r"\.is_some\(\)", ".is_none()"), (r"\.is_none\(\)", ".is_some()"), (r"\.is_ok\(\)", ".is_err()"),
    (r"\bfrom_compressed\b", "from_compressed_unchecked"), (r"\.unsigned_abs\(\)", ".wrapping_abs() as u64"),
    (r"\bzero\(\)", "one()"), (r"\bone\(\)", "zero()"), (r"\b0\.\.", "1.."), (r"\[0\]", "[1]"),
    (r"\.0\b", ".1"), (r"\.1\b", ".0"),
]
# second operator set: "the wrong variable of the right type" - the most common kind of real slip in this code base
OPS2 = [
    (r"customer_balance", "merchant_balance"), (r"merchant_balance", "customer_balance"),
    (r"\bold_", "new_"), (r"\bnew_", "old_"), (r"\bclose_state", "state"), (r"(?<!close_)\bstate(?=[_\.\)])", "close_state"),
    (r"\bsigma1\b", "sigma2"), (r"\bsigma2\b", "sigma1"), (r"\by1s\b", "y2s"), (r"\by2s\b", "y1s"),
    (r"\bg1\b", "g2"), (r"\bg2\b", "g1"), (r"\bx1\b", "x2"), (r"\bx2\b", "x1"),
    (r"\[1\]", "[2]"), (r"\[2\]", "[3]"), (r"\[3\]", "[4]"), (r"\[4\]", "[3]"),
    (r"commitment_scalar", "response_scalar"), (r"response_scalar", "commitment_scalar"),
    (r"\bcustomer_", "merchant_"), (r"\bmerchant_", "customer_"),
    (r"\.\.N\b", "..N - 1"), (r"\btake\(N\)", "take(N - 1)"), (r"\bmin\(", "max("), (r"\bmax\(", "min("),
    (r"\bfirst\b", "last"), (r"\bnonce\b", "revocation_lock"), (r"\block\b", "secret"), (r"\bsecret\b", "lock"),
    (r"\bmsg\b", "commitment_scalars"), (r"\bblinding_factor\b", "blinding_factor_commitment_scalar"),
    (r"\bas_scalar\(\)", "as_scalar().square()"), (r"\bto_scalar\(\)", "to_scalar().double()"),
    (r"\bneg\(\)", "neg().neg()"), (r"\brandomize\(", "clone_NOOP("), (r"Scalar::random\(", "Scalar::from_u64_NOOP("),
]
LINE_DELETE = re.compile(r"^\s*\.(with|consume|with_bytes|update)\(.*\)\s*$|^\s*(self\.)?[a-z_\.]+\.(consume|update|push|extend)\(.*\);\s*$|^\s*return (None|Err\(.*\)|Failed|false);\s*$")


def sh(*a, **k):
    return subprocess.run(a, capture_output=True, text=True, **k)


def lib_lines(path):
    """(lineno, text) of non-test, non-comment lines."""
    out = []
    with open(path) as f:
        lines = f.read().split("\n")
    for i, l in enumerate(lines):
        if "#[cfg(test)]" in l:
            break
        s = l.strip()
        if not s or s.startswith("//") or s.startswith("#[") or s.startswith("use ") or s.startswith("///"):
            continue
        out.append((i, l))
    return lines, out


def gen(a):
    os.makedirs(os.path.join(a.out, "cand"), exist_ok=True)
    cands = []
    for d in SRC:
        for path in sorted(glob.glob(os.path.join(REPO, d, "**", "*.rs"), recursive=True)):
            rel = os.path.relpath(path, REPO)
            lines, live = lib_lines(path)
            for i, l in live:
                code = l.split("//")[0]
                for pat, rep in (OPS2 if a.ops == 2 else OPS):
                    for m in re.finditer(pat, code):
                        if rep == ".zip_SKIP(":
                            continue
                        new = code[:m.start()] + rep + code[m.end():] + l[len(code):]
                        cands.append((rel, i, new, "%s -> %s" % (pat, rep)))
                if a.ops != 2 and LINE_DELETE.match(code):
                    cands.append((rel, i, None, "delete line"))
    rnd = random.Random(a.seed)
    rnd.shuffle(cands)
    if a.sample:
        cands = cands[:a.sample]
    for n, (rel, i, new, what) in enumerate(cands):
        path = os.path.join(REPO, rel)
        with open(path) as f:
            lines = f.read().split("\n")
        old = lines[i]
        mod = lines[:i] + ([new] if new is not None else []) + lines[i + 1:]
        tmp = tempfile.NamedTemporaryFile("w", suffix=".rs", delete=False)
        tmp.write("\n".join(mod))
        tmp.close()
        r = sh("git", "diff", "--no-index", "--", path, tmp.name)
        os.unlink(tmp.name)
        d = r.stdout.replace("a" + path, "a/" + rel).replace("b" + tmp.name, "b/" + rel)
        d = re.sub(r"^diff --git .*$", "diff --git a/%s b/%s" % (rel, rel), d, count=1, flags=re.M)
        d = re.sub(r"^index .*\n", "", d, count=1, flags=re.M)
        with open(os.path.join(a.out, "cand", "%04d.diff" % n), "w") as f:
            f.write("# mutant %04d: %s:%d  %s\n#   was: %s\n" % (n, rel, i + 1, what, old.strip()))
            f.write(d)
    print("%d candidates written" % len(cands))


def run(a):
    os.makedirs(os.path.join(a.out, "survivors"), exist_ok=True)
    cands = sorted(glob.glob(os.path.join(a.out, "cand", "*.diff")))
    done_file = os.path.join(a.out, "results.txt")
    done = {}
    if os.path.exists(done_file):
        for l in open(done_file):
            k, v = l.rstrip("\n").split("\t", 1)
            done[k] = v
    todo = [c for c in cands if os.path.basename(c) not in done]
    lock = threading.Lock()
    gitlock = threading.Lock()
    q = list(todo)

    def worker(w):
        wt = os.path.join(a.out, "wt%d" % w)
        tgt = os.path.join(a.out, "target%d" % w)
        with gitlock:
            sh("git", "-C", REPO, "worktree", "remove", "--force", wt)
            shutil.rmtree(wt, ignore_errors=True)
            r = sh("git", "-C", REPO, "worktree", "add", "--detach", wt, "HEAD")
        env = dict(os.environ, CARGO_TARGET_DIR=tgt, CARGO_NET_OFFLINE="true", RUSTFLAGS="-Awarnings")
        try:
            while True:
                with lock:
                    if not q:
                        return
                    c = q.pop(0)
                name = os.path.basename(c)
                sh("git", "-C", wt, "checkout", "--", ".")
                r = sh("git", "-C", wt, "apply", "--whitespace=nowarn", c)
                if r.returncode:
                    res = "noapply"
                else:
                    r = sh("cargo", "build", "--workspace", "--offline", "--lib", cwd=wt, env=env)
                    if r.returncode:
                        res = "nocompile"
                    else:
                        try:
                            r = subprocess.run(["cargo", "test", "--workspace", "--offline"], cwd=wt, env=env,
                                               capture_output=True, text=True, timeout=900)
                            res = "SURVIVED" if r.returncode == 0 else "killed"
                        except subprocess.TimeoutExpired:
                            res = "killed(timeout)"
                if res == "SURVIVED":
                    shutil.copy(c, os.path.join(a.out, "survivors", name))
                with lock:
                    with open(done_file, "a") as f:
                        f.write("%s\t%s\n" % (name, res))
                    print(name, res, flush=True)
        finally:
            with gitlock:
                sh("git", "-C", REPO, "worktree", "remove", "--force", wt)
            shutil.rmtree(wt, ignore_errors=True)
            shutil.rmtree(tgt, ignore_errors=True)

    with ThreadPoolExecutor(max_workers=a.jobs) as ex:
        list(ex.map(worker, range(a.jobs)))


def probe(a):
    surv = sorted(glob.glob(os.path.join(a.out, "survivors", "*.diff")))
    rep = os.path.join(a.out, "report.txt")
    seen = set()
    if os.path.exists(rep):
        for l in open(rep):
            if l.startswith("== "):
                seen.add(l.split()[1].rstrip(":"))
    lock = threading.Lock()

    def one(p):
        if p in seen:
            return
        r = sh(sys.executable, os.path.join(VERIF, "tools", "probe.py"), p)
        with lock:
            with open(rep, "a") as f:
                f.write(open(p).read().split("\ndiff --git")[0] + "\n")
                f.write(r.stdout + "\n")
            print(r.stdout.split("\n")[0], flush=True)

    with ThreadPoolExecutor(max_workers=a.jobs) as ex:
        list(ex.map(one, surv))


ap = argparse.ArgumentParser()
ap.add_argument("cmd", choices=["gen", "run", "probe"])
ap.add_argument("out")
ap.add_argument("--sample", type=int, default=0)
ap.add_argument("--seed", type=int, default=1)
ap.add_argument("--jobs", type=int, default=4)
ap.add_argument("--ops", type=int, default=1, help="operator set: 1 = one-token operators and line deletions, 2 = wrong-variable swaps")
a = ap.parse_args()
a.out = os.path.abspath(a.out)
{"gen": gen, "run": run, "probe": probe}[a.cmd](a)
