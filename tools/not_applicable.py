for _p in ["C04","C06","C10","C14","C15","C16","C18","C19","C20"]:
    NOT_APPLICABLE[_p] = "check under construction in this build round (static rule designed in DESIGN.md section 5, not yet registered)"
