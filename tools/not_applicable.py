for _p in ["C01","C02","C03","C04","C05","C06","C10","C13","C14","C15","C16","C17","C18","C19","C20"]:
    NOT_APPLICABLE[_p] = "check under construction in this build round (static rule designed in DESIGN.md section 5, not yet registered)"
