# every given property has at least one clause decided statically; none is declined as a whole
