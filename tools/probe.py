#!/usr/bin/env python3
"""tools/probe.py <patch.diff>... : apply each patch to a scratch worktree of /repo HEAD, run all twenty quick
checks against it, print which fire (first report line each), remove the worktree. Development aid."""
import os, subprocess, sys, tempfile, shutil
from concurrent.futures import ThreadPoolExecutor
VERIF = os.path.dirname(os.path.dirname(os.path.abspath(__file__)))
ALL = ["C%02d" % i for i in range(1, 21)]


def sh(*a, **k):
    return subprocess.run(a, capture_output=True, text=True, **k)


def one(p):
    wt = tempfile.mkdtemp(prefix="zkv-probe-"); os.rmdir(wt)
    sh("git", "-C", "/repo", "worktree", "add", "--detach", wt, "HEAD")
    out = []
    try:
        r = sh("git", "-C", wt, "apply", "--whitespace=nowarn", os.path.abspath(p))
        if r.returncode:
            return p, ["does not apply: " + r.stderr[:200]]
        env = dict(os.environ, ZKV_EVID_DIR=tempfile.gettempdir() + "/zkv-selftest-evid", ZKV_NO_CONTROLS="1")
        first = sh(os.path.join(VERIF, "check"), ALL[0], "--repo", wt, cwd=VERIF, env=env)   # extraction once
        def run(pid):
            return pid, (first if pid == ALL[0] else sh(os.path.join(VERIF, "check"), pid, "--repo", wt, cwd=VERIF, env=env))
        with ThreadPoolExecutor(max_workers=6) as ex:
            for pid, r in ex.map(run, ALL):
                if r.returncode:
                    lines = [l.strip() for l in r.stdout.splitlines() if l.startswith("  rule=")]
                    msgs = [l.strip() for l in r.stdout.splitlines() if l.startswith("    ") and not l.strip().startswith("at ")]
                    out.append("%s FIRED (%d): %s | %s" % (pid, len(lines), lines[0][:110] if lines else r.stderr[-200:], msgs[0][:260] if msgs else ""))
        return p, out
    finally:
        sh("git", "-C", "/repo", "worktree", "remove", "--force", wt)
        shutil.rmtree(wt, ignore_errors=True)


for p in sys.argv[1:]:
    p, out = one(p)
    print("== %s: %s" % (p, "silent on all 20" if not out else ""))
    for l in out:
        print("   " + l)
