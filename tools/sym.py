#!/usr/bin/env python3
"""Debug aid: symbolic value of functions whose path contains <substr>, optionally for another tree: tools/sym.py <substr> [repo]"""
import sys, os, traceback
sys.path.insert(0, os.path.dirname(os.path.dirname(os.path.abspath(__file__))))
from zkverif import facts
from zkverif.sym import Engine
from zkverif.fmt import Fmt
pat = sys.argv[1]
prog = facts.load("default", sys.argv[2] if len(sys.argv) > 2 else facts.REPO)
W = int(os.environ.get("W", "1500"))
for b in prog.bodies.values():
    if pat in b.path or pat == b.id:
        eng = Engine(prog)
        print("====", b.path)
        try:
            ret, st, fr = eng.eval_fn(b)
        except Exception:
            traceback.print_exc()
            continue
        names = {i: (b.local_name(i) or "arg%d" % i) for i in range(1, b.argc + 1)}
        f = Fmt(eng, names)
        print("ret =", f(ret)[:W] if ret is not None else None)
        for o in eng.obligations:
            print("  obligation", o["kind"], "pc=", f(("b", o["pc"]))[:200], [f(x)[:100] for x in o["ops"] if x is not None])
        for p in eng.panics:
            print("  panic", p["callee"], "pc=", f(("b", p["pc"]))[:200])
        print("  assumed:", [f(("b", a))[:200] for a in eng.assumed])
        if eng.unknown_calls:
            print("  unknown calls:", eng.unknown_calls)
