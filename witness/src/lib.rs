//! E8: type-level witnesses (compile-fail doctests) for what the MIR rules cannot see because it is
//! *outside* the crates: no external code can forge the verified / validated wrappers or reuse a
//! consumed stage.  Every `compile_fail,E0xxx` witness is paired with a compiling twin that differs
//! only in the offending line (a witness whose path is merely wrong would also "fail to compile").
//! Run with `cargo +nightly test --doc --offline` (error codes are honoured on nightly only).

/// W01 (C08, C01): a `VerifiedBlindedMessage` cannot be constructed outside zkchannels-crypto.
/// ```compile_fail,E0423
/// use zkchannels_crypto::{pedersen::Commitment, pointcheval_sanders::VerifiedBlindedMessage};
/// fn forge(c: Commitment<bls12_381::G1Projective>) -> VerifiedBlindedMessage {
///     VerifiedBlindedMessage(c)
/// }
/// ```
/// twin: the type is nameable and values can be passed around
/// ```no_run
/// use zkchannels_crypto::{pedersen::Commitment, pointcheval_sanders::VerifiedBlindedMessage};
/// fn pass(c: Commitment<bls12_381::G1Projective>, v: VerifiedBlindedMessage) -> VerifiedBlindedMessage {
///     let _ = c; v
/// }
/// ```
pub struct W01;

/// W02 (C01, C02): a `VerifiedBlindedState` cannot be constructed outside zkabacus-crypto.
/// ```compile_fail,E0423
/// use zkabacus_crypto::VerifiedBlindedState;
/// use zkchannels_crypto::pointcheval_sanders::VerifiedBlindedMessage;
/// fn forge(v: VerifiedBlindedMessage) -> VerifiedBlindedState {
///     VerifiedBlindedState(v)
/// }
/// ```
/// ```no_run
/// use zkabacus_crypto::VerifiedBlindedState;
/// use zkchannels_crypto::pointcheval_sanders::VerifiedBlindedMessage;
/// fn pass(v: VerifiedBlindedMessage, s: VerifiedBlindedState) -> VerifiedBlindedState {
///     let _ = v; s
/// }
/// ```
pub struct W02;

/// W03 (C18, C15): a `Nonce` cannot be built from an arbitrary scalar outside the crate.
/// ```compile_fail,E0423
/// fn forge(s: bls12_381::Scalar) -> zkabacus_crypto::Nonce {
///     zkabacus_crypto::Nonce(s)
/// }
/// ```
/// ```no_run
/// fn pass(s: bls12_381::Scalar, n: zkabacus_crypto::Nonce) -> zkabacus_crypto::Nonce {
///     let _ = s; n
/// }
/// ```
pub struct W03;

/// W04 (C05, C15): the fields of a `RevocationPair` are private (no struct-literal forgery, no mutation).
/// ```compile_fail,E0616
/// fn peek(p: &zkabacus_crypto::revlock::RevocationPair) -> zkabacus_crypto::revlock::RevocationLock {
///     p.lock
/// }
/// ```
/// ```no_run
/// fn peek(p: &zkabacus_crypto::revlock::RevocationPair) -> zkabacus_crypto::revlock::RevocationLock {
///     p.revocation_lock()
/// }
/// ```
pub struct W04;

/// W05 (C03, C04): the customer's internal `State` (and with it `revocation_pair`) is unreachable from outside.
/// ```compile_fail,E0603
/// fn leak(s: zkabacus_crypto::states::State) {
///     let _ = s;
/// }
/// ```
/// ```no_run
/// fn ok(s: zkabacus_crypto::CloseState) {
///     let _ = s;
/// }
/// ```
pub struct W05;

/// W06 (C03): a stage is consumed by its transition: the pre-payment `Ready` cannot be used after `start`.
/// ```compile_fail,E0382
/// use zkabacus_crypto::{customer::*, Context, PaymentAmount};
/// fn f(ready: Ready, amount: PaymentAmount, ctx: &Context, cfg: &Config) {
///     let mut rng = rand::thread_rng();
///     let _started = ready.start(&mut rng, amount, ctx, cfg);
///     let _closing = ready.close(&mut rng);
/// }
/// ```
/// ```no_run
/// use zkabacus_crypto::{customer::*, Context, PaymentAmount};
/// fn f(ready: Ready, amount: PaymentAmount, ctx: &Context, cfg: &Config) {
///     let mut rng = rand::thread_rng();
///     let _started = ready.start(&mut rng, amount, ctx, cfg);
/// }
/// ```
pub struct W06;

/// W07 (C03): `Started::lock` consumes the stage: the old state cannot be closed after the revocation secret was released.
/// ```compile_fail,E0382
/// use zkabacus_crypto::{customer::*, ClosingSignature};
/// fn f(started: Started, sig: ClosingSignature, cfg: &Config) {
///     let mut rng = rand::thread_rng();
///     let _locked = started.lock(sig, cfg);
///     let _closing = started.close(&mut rng);
/// }
/// ```
/// ```no_run
/// use zkabacus_crypto::{customer::*, ClosingSignature};
/// fn f(started: Started, sig: ClosingSignature, cfg: &Config) {
///     let _locked = started.lock(sig, cfg);
/// }
/// ```
pub struct W07;

/// W08 (C01, C08): a verified blinded state can be signed (activated) only once.
/// ```compile_fail,E0382
/// use zkabacus_crypto::{merchant::Config, VerifiedBlindedState};
/// fn f(cfg: &Config, s: VerifiedBlindedState) {
///     let mut rng = rand::thread_rng();
///     let _t1 = cfg.activate(&mut rng, s);
///     let _t2 = cfg.activate(&mut rng, s);
/// }
/// ```
/// ```no_run
/// use zkabacus_crypto::{merchant::Config, VerifiedBlindedState};
/// fn f(cfg: &Config, s: VerifiedBlindedState) {
///     let mut rng = rand::thread_rng();
///     let _t1 = cfg.activate(&mut rng, s);
/// }
/// ```
pub struct W08;

/// W09 (C14, C08): `BlindingFactor::from_scalar` is crate-private (external code cannot pick blinding factors).
/// ```compile_fail,E0624
/// fn f(s: bls12_381::Scalar) -> zkchannels_crypto::BlindingFactor {
///     zkchannels_crypto::BlindingFactor::from_scalar(s)
/// }
/// ```
/// ```no_run
/// fn f() -> zkchannels_crypto::BlindingFactor {
///     zkchannels_crypto::BlindingFactor::new(&mut rand::thread_rng())
/// }
/// ```
pub struct W09;

/// W10 (C07, C15): a `Signature` cannot be assembled from arbitrary elements outside the crate.
/// ```compile_fail,E0451
/// use zkchannels_crypto::pointcheval_sanders::Signature;
/// fn forge(a: bls12_381::G1Affine, b: bls12_381::G1Affine) -> Signature {
///     Signature { sigma1: a, sigma2: b }
/// }
/// ```
/// ```no_run
/// use zkchannels_crypto::pointcheval_sanders::Signature;
/// fn parts(s: Signature) -> (bls12_381::G1Affine, bls12_381::G1Affine) {
///     (s.sigma1(), s.sigma2())
/// }
/// ```
pub struct W10;

/// W11 (C17, C15): balances are only obtainable through the range-checked constructors.
/// ```compile_fail,E0423
/// fn forge() -> zkabacus_crypto::CustomerBalance {
///     zkabacus_crypto::CustomerBalance(unimplemented!())
/// }
/// ```
/// ```no_run
/// fn make() -> Result<zkabacus_crypto::CustomerBalance, zkabacus_crypto::Error> {
///     zkabacus_crypto::CustomerBalance::try_new(5)
/// }
/// ```
pub struct W11;

/// W12 (C05): the pending payment is consumed by `complete_payment` and only handed back on refusal.
/// ```compile_fail,E0382
/// use zkabacus_crypto::{merchant::Unrevoked, revlock::*};
/// fn f(u: Unrevoked<'_>, p: &RevocationPair, bf: &RevocationLockBlindingFactor) {
///     let mut rng = rand::thread_rng();
///     let _a = u.complete_payment(&mut rng, p, bf);
///     let _b = u.complete_payment(&mut rng, p, bf);
/// }
/// ```
/// ```no_run
/// use zkabacus_crypto::{merchant::Unrevoked, revlock::*};
/// fn f(u: Unrevoked<'_>, p: &RevocationPair, bf: &RevocationLockBlindingFactor) {
///     let mut rng = rand::thread_rng();
///     match u.complete_payment(&mut rng, p, bf) { Ok(_t) => {}, Err(u2) => { let _again = u2.complete_payment(&mut rng, p, bf); } }
/// }
/// ```
pub struct W12;
