"""Normal forms for engine terms (E4 algebra).

* scalars / group elements: polynomials with integer coefficients over atoms in one commutative
  ring (a group element is an atom that occurs linearly, so linear forms `sum poly * generator`
  are a special case);
* vectors: `('V', body-polynomial over ('E', leaf) atoms, length)`; sums over a vector are
  linear: `sum_i (c*p_i + q_i) = c*sum p + sum q`, the bilinear symbol <A,B> is the atom
  `('vs', ((E(A),1),(E(B),1)), n)`; a concrete array leaf expands the sum;
* Booleans: a BDD (own manager) over normalised atoms: equalities become `('Z', poly)` up to sign,
  `is_identity(x)` / `is_zero(x)` are the same atom as `x == 0`, pairing-product checks become
  `('PP', frozenset of (a, b))` with signs pushed to the second component.
"""
from .bdd import BDD

ARITH = {"add", "sub", "mul", "neg", "zero", "one", "gzero", "vsum", "from_int", "poly"}


def key(a):
    return repr(a)


class Poly(dict):
    """monomial (tuple of (atom, power) sorted by key) -> non-zero integer coefficient"""

    @staticmethod
    def const(c):
        p = Poly()
        if c:
            p[()] = c
        return p

    @staticmethod
    def atom(a):
        p = Poly()
        p[((a, 1),)] = 1
        return p

    def add(self, o, k=1):
        r = Poly(self)
        for m, c in o.items():
            v = r.get(m, 0) + k * c
            if v:
                r[m] = v
            else:
                r.pop(m, None)
        return r

    def mul(self, o):
        r = Poly()
        for m1, c1 in self.items():
            for m2, c2 in o.items():
                m = mono_mul(m1, m2)
                v = r.get(m, 0) + c1 * c2
                if v:
                    r[m] = v
                else:
                    r.pop(m, None)
        return r

    def neg(self):
        return Poly({m: -c for m, c in self.items()})

    def frozen(self):
        return tuple(sorted(self.items(), key=lambda kv: key(kv[0])))

    def is_zero(self):
        return not self

    def const_value(self):
        if not self:
            return 0
        if len(self) == 1 and () in self:
            return self[()]
        return None

    def atoms(self):
        s = set()
        for m in self:
            for a, _ in m:
                s.add(a)
        return s


def mono_mul(m1, m2):
    d = dict(m1)
    for a, p in m2:
        d[a] = d.get(a, 0) + p
    return tuple(sorted(d.items(), key=lambda kv: key(kv[0])))


def thaw(fz):
    return Poly(dict(fz))


class Alg:
    def __init__(self, eng):
        self.eng = eng
        self.bdd = BDD()
        self.pmemo = {}
        self.cmemo = {}
        self.bmemo = {}
        self.facts = {}       # atom -> Poly replacement (used for exponent-form substitutions)

    # ------------------------------------------------------------ polynomials
    def poly(self, t):
        r = self.pmemo.get(t)
        if r is None:
            r = self._poly(t)
            self.pmemo[t] = r
        return r

    def _poly(self, t):
        k = t[0]
        if k == "add":
            return self.poly(t[1]).add(self.poly(t[2]))
        if k == "sub":
            return self.poly(t[1]).add(self.poly(t[2]), -1)
        if k == "neg":
            return self.poly(t[1]).neg()
        if k == "mul":
            return self.poly(t[1]).mul(self.poly(t[2]))
        if k in ("zero", "gzero"):
            return Poly()
        if k == "one":
            return Poly.const(1)
        if k == "poly":
            return thaw(t[1])
        if k == "from_int":
            x = t[1]
            if x[0] == "int":
                return Poly.const(x[1])
            a = ("enc", self.canon(x))
            if a in self.facts:
                return self.facts[a]
            return Poly.atom(a)
        if k == "int":
            return Poly.const(t[1])
        if k == "vsum":
            return self.vsum(t[1])
        if k in ("box", "refv"):
            return self.poly(t[1])
        if k == "conv":
            return self.poly(t[1])
        a = self.canon(t)
        if a[0] == "poly":
            return thaw(a[1])
        if a in self.facts:
            return self.facts[a]
        return Poly.atom(a)

    def canon(self, t):
        """Canonical term (children normalised; arithmetic collapsed to ('poly', frozen))."""
        if not isinstance(t, tuple) or not t:
            return t
        r = self.cmemo.get(t)
        if r is not None:
            return r
        k = t[0]
        if k in ARITH:
            p = self.poly(t)
            r = self.poly_term(p)
        elif k == "b":
            r = ("B", self.nb(t[1]))
        elif k in ("B", "ITE"):
            r = t
        elif k == "icast":
            x = self.canon(t[1])
            if value_preserving(t[2], t[3]):
                r = x
            elif x[0] == "icast" and x[2] == t[3] and x[3] == t[2] and _W.get(t[2]) == _W.get(t[3]):
                # same-width round trip (u64 as i64 as u64): the identity for every value
                r = x[1]
            else:
                r = ("icast", x, t[2], t[3])
        elif k == "ite":
            c = self.nb(t[1])
            a, b = self.canon(t[2]), self.canon(t[3])
            if c == 1:
                r = a
            elif c == 0:
                r = b
            elif a == b:
                r = a
            else:
                r = ("ITE", c, a, b)
        elif k in ("vmap", "refs", "vals", "array", "repeat") and self.is_vector(t):
            r = self.vec(t)
        elif k in ("box", "refv", "deref", "copied"):
            r = self.canon(t[1])        # values, not addresses: references, boxes and copies are transparent
        elif k == "conv" and t[2] in ("G2Prepared", "G1Projective", "G2Projective", "G1Affine", "G2Affine"):
            r = self.canon(t[1])
        elif k == "at":
            v = self.canon(t[1])
            i = self.canon(t[2])
            while v[0] == "upd_idx" and i[0] == "int" and v[2][0] == "int" and v[2] != i:
                v = v[1]                  # read over a write at another constant index
            if v[0] == "upd_idx" and v[2] == i:
                r = v[3]
            elif v[0] == "V":
                r = self.v_at(v, i)
            elif v[0] == "array" and i[0] == "int" and 0 <= i[1] < len(v[1]):
                r = v[1][i[1]]
            elif i == ("I",) and not self.has_EI(v):
                # `xs[i]` at the iteration index of the enclosing summary is the element of xs: the same atom an
                # iterator over xs produces (index loops and iterator chains agree)
                r = ("E", v)
            else:
                r = ("at", v, i)
        elif k == "upd_idx":
            v = self.canon(t[1])
            i = self.canon(t[2])
            e = self.canon(t[3])
            if v[0] == "V" and isinstance(v[2], int) and v[2] <= 8 and i[0] == "int":
                v = ("array", tuple(self.v_at(v, ("int", j)) for j in range(v[2])))
            if v[0] == "array" and i[0] == "int" and 0 <= i[1] < len(v[1]):
                r = ("array", v[1][:i[1]] + (e,) + v[1][i[1] + 1:])
            else:
                r = ("upd_idx", v, i, e)
        elif k == "field":
            if t[1][0] in ("upd", "struct", "tuple", "ite", "closure"):
                v = self.eng.proj_field(t[1], t[2])
                r = self.canon(v) if v != t else ("field", self.canon(t[1]), t[2])
            else:
                cb = self.canon(t[1])
                if cb[0] in ("struct", "tuple") and t[2] < len(cb[-1]):
                    r = cb[-1][t[2]]
                else:
                    r = ("field", cb, t[2])
        elif k == "rand":
            r = ("rand", t[1], t[2], tuple(self.canon(x) for x in t[3]))
        elif k == "loopout":
            r = self.loopout(t[1], t[2])
        else:
            r = tuple(self.canon(x) if isinstance(x, tuple) else x for x in t)
        self.cmemo[t] = r
        return r

    def poly_term(self, p):
        c = p.const_value()
        if c is not None:
            return ("int", c) if c else ("int", 0)
        if len(p) == 1:
            (m, co), = p.items()
            if co == 1 and len(m) == 1 and m[0][1] == 1:
                return m[0][0]
        return ("poly", p.frozen())

    # ------------------------------------------------------------ vectors
    def is_vector(self, t):
        return True

    def vec(self, t):
        """Canonical vector: ('V', body_poly_frozen_or_term, n) with ('E', leaf) / ('I',) atoms,
        or ('array', elems) for concrete arrays, or a plain leaf term."""
        k = t[0]
        if k in ("refs", "vals", "box", "refv"):
            return self.vec(t[1])
        if k == "array":
            return ("array", tuple(self.canon(x) for x in t[1]))
        if k == "arrayvec":
            return self.vec(t[1])
        if k == "repeat":
            return ("V", self.canon(t[1]), t[2])
        if k == "vmap":
            uid, body, leaves, n = t[1], t[2], t[3], (t[4] if len(t) > 4 else None)
            cl = [self.leaf(x) for x in leaves]
            # concrete array among the leaves: expand element-wise
            L = None
            for x in cl:
                if x[0] == "array":
                    L = len(x[1]) if L is None else min(L, len(x[1]))
            if L is not None and (n is None or n == L or isinstance(n, str)):
                elems = []
                for i in range(L):
                    sub = {("idx", uid): ("int", i)}
                    for j, x in enumerate(cl):
                        sub[("elem", uid, j)] = self.leaf_at(x, ("int", i))
                    elems.append(self.canon(self.eng.subst(body, sub)))
                return ("array", tuple(elems))
            sub = {("idx", uid): ("I",)}
            for j, x in enumerate(cl):
                sub[("elem", uid, j)] = self.leaf_elem(x)
            b = self.canon(self.eng.subst(body, sub))
            if len(cl) == 1 and b == ("E", cl[0]) and cl[0][0] != "range":
                return cl[0]
            if b[0] == "E" and not self.has_EI(b[1]):
                # identity map written with an index ( `(0..N).map(|i| xs[i])`, fill loops): the vector itself,
                # provided the index range is the whole vector
                known = self.eng.lens.get(b[1])
                whole = (known is not None and (known == n or str(known) == str(n))) or (known is None and isinstance(n, str))
                if whole:
                    return b[1]
            return ("V", b, n)
        return self.canon_leaf(t)

    def canon_leaf(self, t):
        k = t[0]
        return self.canon(t)

    def leaf(self, x):
        if x[0] == "revd":
            return ("revd", self.leaf(x[1]))
        if x[0] == "range":
            return ("range", self.canon(x[1]), self.canon(x[2]))
        if x[0] == "mutrefs":
            return ("cellvec", x[1], x[2])
        return self.vec(x)

    def leaf_elem(self, cl):
        """Element term of canonical leaf under the canonical binder."""
        if cl[0] == "V":
            return cl[1]
        if cl[0] == "range":
            lo = cl[1]
            if lo == ("int", 0):
                return ("I",)
            return self.canon(("add", lo, ("I",)))
        return ("E", cl)

    def leaf_at(self, cl, i):
        if cl[0] == "array":
            if i[0] == "int" and i[1] < len(cl[1]):
                return cl[1][i[1]]
            return ("at", cl, i)
        if cl[0] == "V":
            return self.v_at(cl, i)
        if cl[0] == "range":
            return self.canon(("add", cl[1], i)) if cl[1] != ("int", 0) else i
        return ("at", cl, i)

    def v_at(self, v, i):
        body = v[1]
        return self.canon(self.subst_EI(body, i))

    def subst_EI(self, t, i):
        if not isinstance(t, tuple) or not t:
            return t
        if t[0] == "E":
            return ("at", t[1], i)
        if t[0] == "I":
            return i
        if t[0] == "poly":
            acc = Poly()
            for m, c in t[1]:
                term = Poly.const(c)
                for a, pw in m:
                    pa = self.poly(self.subst_EI(a, i))
                    for _ in range(pw):
                        term = term.mul(pa)
                acc = acc.add(term)
            return self.poly_term(acc)
        if t[0] in ("b", "B"):
            return t
        if t[0] == "rand":
            return ("rand", t[1], t[2], tuple(self.subst_EI(x, i) for x in t[3]))
        return tuple(self.subst_EI(x, i) for x in t)

    def has_EI(self, t):
        if not isinstance(t, tuple) or not t:
            return False
        if t[0] in ("E", "I"):
            return True
        if t[0] == "rand":
            return any(self.has_EI(x) for x in t[3])
        if t[0] == "B":
            return any(self.has_EI(a) for a in self.bdd.support(t[1]))
        if t[0] == "b":
            return False
        if t[0] == "poly":
            return any(self.has_EI(a) for m, _ in t[1] for a, _ in m)
        return any(self.has_EI(x) for x in t[1:] if isinstance(x, tuple))

    def unreverse(self, t):
        """For order-insensitive summaries (plain sums) and for Horner folds (whose reversal is accounted for by the
        recurrence): if *every* element atom of `t` comes from a reversed leaf and the index itself is unused, the same
        term over the leaves in their original order; else None."""
        st = {"rev": 0, "fwd": 0, "idx": 0}

        def scan(x, seen):
            if not isinstance(x, tuple) or not x or id(x) in seen:
                return
            seen.add(id(x))
            if x[0] == "E":
                if isinstance(x[1], tuple) and x[1] and x[1][0] == "revd":
                    st["rev"] += 1
                else:
                    st["fwd"] += 1
                return
            if x[0] == "I":
                st["idx"] += 1
                return
            if x[0] in ("b", "B"):
                return
            for y in (x[1:] if isinstance(x[0], str) else x):
                scan(y, seen)
        scan(t, set())
        if st["rev"] == 0 or st["fwd"] or st["idx"]:
            return None

        def strip(x):
            if not isinstance(x, tuple) or not x:
                return x
            if x[0] == "E" and isinstance(x[1], tuple) and x[1] and x[1][0] == "revd":
                return ("E", x[1][1])
            if x[0] in ("b", "B"):
                return x
            return tuple(strip(y) for y in x)
        return strip(t)

    def literal_leaf_len(self, t, _seen=None):
        if not isinstance(t, tuple) or not t:
            return None
        if _seen is None:
            _seen = set()
        if id(t) in _seen:
            return None
        _seen.add(id(t))
        if t[0] == "E" and isinstance(t[1], tuple) and t[1] and t[1][0] == "array":
            return len(t[1][1])
        if t[0] in ("b", "B"):
            return None
        for x in (t[1:] if isinstance(t[0], str) else t):
            if isinstance(x, tuple):
                r = self.literal_leaf_len(x, _seen)
                if r is not None:
                    return r
        return None

    def vsum(self, v):
        cv = self.vec(v)
        if cv[0] == "array":
            acc = Poly()
            for e in cv[1]:
                acc = acc.add(self.poly(e))
            return acc
        if cv[0] == "V":
            body, n = cv[1], cv[2]
            ub = self.unreverse(body)
            if ub is not None:
                body = self.canon(ub)           # a sum does not depend on the order of its terms
                cv = ("V", body, n)
            if not isinstance(n, int):
                # a literal array among the iterated leaves fixes the length (it surfaced after a substitution)
                L = self.literal_leaf_len(body)
                if L is not None:
                    n = L
            if isinstance(n, int) and 0 <= n <= 8:
                # a sum of statically known small length is its explicit terms
                acc = Poly()
                for kk in range(n):
                    acc = acc.add(self.poly(self.v_at(cv, ("int", kk))))
                return acc
        else:
            body, n = ("E", cv), self.eng.lens.get(v)
        bp = self.poly(body)
        acc = Poly()
        for m, c in bp.items():
            inner = tuple((a, p) for a, p in m if self.has_EI(a))
            outer = tuple((a, p) for a, p in m if not self.has_EI(a))
            if not inner:
                # sum of a constant: n * c  (kept symbolic in n)
                atom = ("vs", (), n)
            else:
                atom = ("vs", inner, n)
            acc = acc.add(Poly({mono_mul(outer, ((atom, 1),)): c}))
        return acc

    # ------------------------------------------------------------ loop recurrences
    def loop_sub(self, info):
        """Substitution of the per-iteration symbols of an iterator-driven loop by canonical ones."""
        from .models import leaves_of
        uid = info.uid
        sub = {("idx", uid): ("I",)}
        if info.src is not None:
            for j, lf in enumerate(leaves_of(info.src)):
                sub[("elem", uid, j)] = self.leaf_elem(self.leaf(lf))
        return sub

    def loopout(self, uid, c):
        """Closed form of a loop-carried cell after an iterator-driven loop.
        Recognised recurrences:  acc' = acc + w * g(elem),  w' = w * k   (k loop-invariant)
        =>  acc_final = acc0 + sum_j w0 k^j g(elem_j)  =  acc0 + ('wsum', w0, k, V(g), n)."""
        info = self.eng.loops.get(uid)
        if info is None or info.kind != "iter" or c not in info.step:
            return ("loopout", uid, c)
        from .models import shape_len
        n = shape_len(self.eng, info.src)
        sub = self.loop_sub(info)
        lv_self = ("lv", uid, c)
        step = self.eng.subst(info.step[c], sub)
        P = self.poly(step)
        lvs = [a for a in P.atoms() if a[0] == "lv" and a[1] == uid]
        others = [a for a in lvs if a != lv_self]
        lin = P.get(((lv_self, 1),), 0)
        if lin == 1 and len(others) == 1:
            w = others[0]
            rest = P.add(Poly.atom(lv_self), -1)
            # rest must be w * G with G free of loop variables
            G = Poly()
            ok = True
            for m, co in rest.items():
                d = dict(m)
                if d.get(w, 0) != 1 or any(a[0] == "lv" for a in d if a != w):
                    ok = False
                    break
                d.pop(w)
                G[tuple(sorted(d.items(), key=lambda kv: key(kv[0])))] = co
            wstep = info.step.get(w[2])
            if ok and wstep is not None:
                WP = self.poly(self.eng.subst(wstep, sub))
                # w' = w * k
                K = Poly()
                okw = True
                for m, co in WP.items():
                    d = dict(m)
                    if d.get(w, 0) != 1 or any(self.has_EI(a) or a[0] == "lv" for a in d if a != w):
                        okw = False
                        break
                    d.pop(w)
                    K[tuple(sorted(d.items(), key=lambda kv: key(kv[0])))] = co
                if okw:
                    ws = self.wsum_poly(self.poly_term(self.poly(info.init[w[2]])), self.poly_term(K), G, n)
                    return self.poly_term(self.poly(info.init[c]).add(ws))
        if lin == 1 and not others:
            # acc' = acc + g(elem): plain sum
            rest = P.add(Poly.atom(lv_self), -1)
            acc = self.poly(info.init[c])
            if isinstance(n, int) and 0 <= n <= 8:
                # statically known small trip count: the explicit terms
                rt = self.poly_term(rest)
                for kk in range(n):
                    acc = acc.add(self.poly(self.canon(self.subst_EI(rt, ("int", kk)))))
                return self.poly_term(acc)
            for m, co in rest.items():
                inner = tuple((a, p) for a, p in m if self.has_EI(a))
                outer = tuple((a, p) for a, p in m if not self.has_EI(a))
                acc = acc.add(Poly({mono_mul(outer, ((("vs", inner, n), 1),)): co}))
            return self.poly_term(acc)
        if info.src is not None and info.src[0] == "revall" and not others:
            # Horner evaluation from the last element down:  acc' = K*acc + g(elem)  over the reversed sequence
            # ==>  sum_j K^j g(elem_j)  in the original order (acc0 = 0)
            K, G, okh = Poly(), Poly(), True
            for m, co in P.items():
                d = dict(m)
                if lv_self in d:
                    if d[lv_self] != 1:
                        okh = False
                        break
                    d.pop(lv_self)
                    if any(self.has_EI(a) or a[0] == "lv" for a in d):
                        okh = False
                        break
                    K[tuple(sorted(d.items(), key=lambda kv: key(kv[0])))] = co
                else:
                    if any(a[0] == "lv" for a in d):
                        okh = False
                        break
                    G[m] = co
            if okh and K and not self.poly(info.init[c]):
                return self.poly_term(self.wsum_poly(("int", 1), self.poly_term(K), G, n))
        # generic canonical description (positional loop variables over the dependency closure)
        order = [c]
        seen = {c}
        i = 0
        steps = {}
        while i < len(order):
            x = order[i]
            i += 1
            st = self.eng.subst(info.step.get(x, ("lv", uid, x)), sub)
            steps[x] = st
            for a in atoms_lv(st, uid):
                if a not in seen and a in info.step:
                    seen.add(a)
                    order.append(a)
        ren = {("lv", uid, x): ("LV", k) for k, x in enumerate(order)}
        desc = tuple((self.canon(info.init[x]), self.canon(self.eng.subst(steps[x], ren))) for x in order)
        return ("fold", tuple(self.leaf(l) for l in (__import__("zkverif.models", fromlist=["x"]).leaves_of(info.src) if info.src else ())), desc, n)

    def wsum_poly(self, w0, k, G, n):
        """sum_j w0 * k^j * G(elem_j), linear in G: loop-invariant factors are pulled out so that
        wsum(c*d + cs) = c*wsum(d) + wsum(cs)."""
        acc = Poly()
        for m, co in G.items():
            inner = tuple((a, p) for a, p in m if self.has_EI(a))
            outer = tuple((a, p) for a, p in m if not self.has_EI(a))
            atom = ("wsum", w0, k, ("V", self.poly_term(Poly({inner: 1})), n))
            lem = self.decomposition_lemma(atom)
            if lem is not None:
                acc = acc.add(Poly({outer: co}).mul(lem))
            else:
                acc = acc.add(Poly({mono_mul(outer, ((atom, 1),)): co}))
        return acc

    def shift_mask_digits(self, d, U, L):
        """d == (v >> (b*I)) & (U-1) with U = 2^b, I the digit index, L digits, b*L <= 64: returns canonical v."""
        if not isinstance(L, int) or U <= 1 or U & (U - 1):
            return None
        b = U.bit_length() - 1
        if b * L > 64:
            return None
        if d[0] != "ibitand" or d[2] != ("int", U - 1):
            return None
        sh = d[1]
        if sh[0] != "ishr":
            return None
        v, amount = sh[1], sh[2]
        while amount[0] == "icast":
            amount = amount[1]
        ok = amount in (("imul", ("int", b), ("I",), "usize"), ("imul", ("I",), ("int", b), "usize"),
                        ("imul", ("int", b), ("I",), "u32"), ("imul", ("I",), ("int", b), "u32"))
        if not ok:
            ca = self.canon(amount)
            ok = ca == self.canon(("mul", ("int", b), ("I",)))
        if not ok or self.has_EI(v):
            return None
        return self.canon(v)

    def decomposition_lemma(self, atom):
        """Arithmetic lemma (trusted, recorded in `lemmas_used`):  if d_j = v_j mod U, v_{j+1} = v_j div U for
        j < L starting from v_0 = v with 0 <= v < U^L, then  sum_j U^j * enc(d_j) = enc(v)  (enc is a ring map).
        Recognised on the canonical fold produced by the digit-decomposition loop."""
        _, w0, k, vec = atom
        if w0 != ("int", 1) or k[0] != "int" or vec[0] != "V":
            return None
        U, body, L = k[1], vec[1], vec[2]
        if body[0] != "enc":
            return None
        sm = self.shift_mask_digits(body[1], U, L)
        if sm is not None:
            self.__dict__.setdefault("lemmas_used", []).append(
                "digit decomposition (shift/mask form): sum_j %d^j enc((v >> %d*j) & %d) = enc(v) for 0 <= v < %d^%d" % (U, U.bit_length() - 1, U - 1, U, L))
            a = ("enc", sm)
            return self.facts[a] if a in self.facts else Poly.atom(a)
        if body[1][0] == "at" and body[1][2] == ("I",):
            f = body[1][1]
        elif body[1][0] == "E":
            f = body[1][1]
        else:
            return None
        if f[0] != "fold" or f[3] != L or len(f[2]) != 2:
            return None
        (init_a, step_a), (v0, step_v) = f[2]
        if step_a != ("upd_idx", ("LV", 0), ("I",), ("irem", ("LV", 1), ("int", U), "u64")):
            return None
        if step_v != ("idiv", ("LV", 1), ("int", U), "u64"):
            return None
        if init_a[0] != "array" or any(e != ("int", 0) for e in init_a[1]) or len(init_a[1]) != L:
            return None
        self.__dict__.setdefault("lemmas_used", []).append(
            "digit decomposition: sum_j %d^j enc(d_j) = enc(v) for 0 <= v < %d^%d" % (U, U, L))
        a = ("enc", self.canon(v0))
        return self.facts[a] if a in self.facts else Poly.atom(a)

    # ------------------------------------------------------------ booleans
    def nb(self, node):
        """Engine BDD node -> BDD node in this manager over normalised atoms."""
        if node < 2:
            return node
        r = self.bmemo.get(node)
        if r is not None:
            return r
        v, lo, hi = self.eng.bdd.nodes[node]
        a = self.eng.bdd.atoms[v]
        c = self.natom(a)
        r = self.bdd.ite(c, self.nb(hi), self.nb(lo))
        self.bmemo[node] = r
        return r

    def natom(self, a):
        k = a[0]
        if k == "eqv":
            return self.eq(a[1], a[2])
        if k in ("is_identity", "is_zero"):
            return self.zero_atom(self.poly(a[1]))
        if k == "eq" and a[2][0] == "int":
            x = self.canon(a[1])
            if x[0] == "int":
                return 1 if x[1] == a[2][1] else 0
            if x[0] == "B":
                return x[1] if a[2][1] else self.bdd.NOT(x[1])
            return self.bdd.var(("eq", x, a[2]))
        if k == "anyiter":
            cond = a[2]
            return self.bdd.var(("any", self.canon_loop_cond(a[1], cond)))
        c = self.canon(a)
        if c[0] == "B":
            return c[1]
        return self.bdd.var(c)

    def canon_loop_cond(self, uid, cond):
        info = self.eng.loops.get(uid)
        sub = {}
        if info is not None and info.src is not None:
            from .models import leaves_of
            for j, lf in enumerate(leaves_of(info.src)):
                sub[("elem", uid, j)] = self.leaf_elem(self.leaf(lf))
            sub[("idx", uid)] = ("I",)
        return self.canon(self.eng.subst(cond, sub))

    def eq(self, x, y):
        # pairing product equations
        if x[0] == "fexp" or y[0] == "fexp":
            px = self.pairs(x)
            py = self.pairs(y)
            if px is not None and py is not None:
                allp = list(px) + [(a, self.poly_term(self.poly(b).neg())) for a, b in py]
                return self.pp(allp)
        cx, cy = self.canon(x), self.canon(y)
        if cx == cy:
            return 1
        structural = ("struct", "tuple", "array")
        if cx[0] in structural and cy[0] == cx[0] and len(cx[-1]) == len(cy[-1]) and cx[:-1] == cy[:-1]:
            r = 1
            for p, q in zip(cx[-1], cy[-1]):
                r = self.bdd.AND(r, self.eq(p, q))
            return r
        p = self.poly(cx).add(self.poly(cy), -1)
        return self.zero_atom(p)

    def pp(self, pairs):
        """prod_k e(a_k, b_k) == 1 as the bilinear polynomial sum_k a_k (x) b_k == 0 (formal symbols
        P (x) Q are the monomials P*Q of the commutative ring: e is bilinear, so this is exact)."""
        acc = Poly()
        for a, b in pairs:
            acc = acc.add(self.poly(a).mul(self.poly(b)))
        c = acc.const_value()
        if c is not None:
            return 1 if c == 0 else 0
        fz = acc.frozen()
        if fz[0][1] < 0:
            fz = acc.neg().frozen()
        return self.bdd.var(("PP", fz))

    def zero_atom(self, p):
        c = p.const_value()
        if c is not None:
            return 1 if c == 0 else 0
        if len(p) == 1:
            # a single monomial c*a1^k1*...: zero iff some factor is zero (field / prime-order group)
            (m, co), = p.items()
            if len(m) > 1 or (m and m[0][1] > 1):
                r = 0
                for a, _ in m:
                    r = self.bdd.OR(r, self.bdd.var(("Z", (((( a, 1),), 1),))))
                return r
            if m and co != 1:
                return self.bdd.var(("Z", ((m, 1),)))
        fz = p.frozen()
        if fz[0][1] < 0:
            fz = p.neg().frozen()
        # normalise content (gcd) is not needed: coefficients are small integers
        return self.bdd.var(("Z", fz))

    def pairs(self, t):
        if t[0] == "gt_one":
            return []
        if t[0] == "fexp" and t[1][0] == "mml":
            out = []
            for pr in t[1][1]:
                if isinstance(pr, tuple) and len(pr) == 2:
                    out.append((self.canon(pr[0]), self.canon(pr[1])))
                else:
                    return None
            return out
        return None

    def canon_pairs(self, pairs):
        out = []
        for a, b in pairs:
            pa, pb = self.poly(a), self.poly(b)
            # push sign to the second component
            fa = pa.frozen()
            if fa and fa[0][1] < 0:
                pa, pb = pa.neg(), pb.neg()
            out.append((self.poly_term(pa), self.poly_term(pb)))
        return tuple(sorted(out, key=key))

    # ------------------------------------------------------------ helpers for rules
    def conj_atoms(self, node):
        """Atoms (with polarity) of a BDD that is a pure conjunction, else None."""
        return self.bdd.as_conjunction(node)

    def fmt_atom(self, a, F=None):
        return str(a)


def atoms_lv(t, uid, acc=None):
    if acc is None:
        acc = []
    if isinstance(t, tuple) and t:
        if t[0] == "lv" and t[1] == uid:
            if t[2] not in acc:
                acc.append(t[2])
        elif t[0] == "b":
            pass
        else:
            for x in t:
                atoms_lv(x, uid, acc)
    return acc


_W = {"u8": 8, "u16": 16, "u32": 32, "u64": 64, "usize": 64, "u128": 128,
      "i8": 8, "i16": 16, "i32": 32, "i64": 64, "isize": 64, "i128": 128}


def value_preserving(f, t):
    """Integer casts that keep the mathematical value for every input."""
    if f not in _W or t not in _W:
        return False
    fu, tu = f.startswith("u"), t.startswith("u")
    if fu and tu:
        return _W[t] >= _W[f]
    if (not fu) and (not tu):
        return _W[t] >= _W[f]
    if fu and not tu:
        return _W[t] > _W[f]
    return False


def conj_normal_form(alg, node):
    """Canonical form of a conjunction: positive polynomial equalities are replaced by the reduced
    row echelon form of their row space over the monomial basis (so `a=b & b=c` == `a=c & a=b`);
    every other literal is kept.  Returns None when `node` is not a pure conjunction."""
    from fractions import Fraction
    lits = alg.bdd.as_conjunction(node)
    if lits is None:
        return None
    rows = []
    others = []
    for a, pol in lits:
        if pol and a[0] == "Z":
            rows.append({m: Fraction(c) for m, c in a[1]})
        else:
            others.append((a, pol))
    monos = sorted({m for r in rows for m in r}, key=key)
    mat = [[r.get(m, Fraction(0)) for m in monos] for r in rows]
    rank = 0
    for col in range(len(monos)):
        piv = None
        for i in range(rank, len(mat)):
            if mat[i][col] != 0:
                piv = i
                break
        if piv is None:
            continue
        mat[rank], mat[piv] = mat[piv], mat[rank]
        pv = mat[rank][col]
        mat[rank] = [x / pv for x in mat[rank]]
        for i in range(len(mat)):
            if i != rank and mat[i][col] != 0:
                f = mat[i][col]
                mat[i] = [x - f * y for x, y in zip(mat[i], mat[rank])]
        rank += 1
    canon_rows = []
    for r in mat[:rank]:
        canon_rows.append(tuple((m, x) for m, x in zip(monos, r) if x != 0))
    return (frozenset(canon_rows), frozenset(others))
