"""A tiny reduced ordered BDD over arbitrary hashable atoms (variable order = first use).

Used for path predicates and Boolean values in the value-reconstruction engine (E4):
canonical form means `a && b`, `b & a`, nested `if`s and early returns that compute the
same Boolean function compare equal.  No solver, no enumeration: plain apply/ite.
"""


class BDD:
    def __init__(self):
        self.atoms = []          # index -> atom
        self.atom_ix = {}        # atom -> index
        self.nodes = [None, None]  # 0 = False, 1 = True; node = (var, lo, hi)
        self.uniq = {}
        self.cache = {}

    FALSE = 0
    TRUE = 1

    def var(self, atom):
        i = self.atom_ix.get(atom)
        if i is None:
            i = len(self.atoms)
            self.atoms.append(atom)
            self.atom_ix[atom] = i
        return self._mk(i, 0, 1)

    def _mk(self, v, lo, hi):
        if lo == hi:
            return lo
        k = (v, lo, hi)
        n = self.uniq.get(k)
        if n is None:
            n = len(self.nodes)
            self.nodes.append(k)
            self.uniq[k] = n
        return n

    def _top(self, n):
        return self.nodes[n][0] if n > 1 else 1 << 60

    def ite(self, f, g, h):
        if f == 1:
            return g
        if f == 0:
            return h
        if g == h:
            return g
        if g == 1 and h == 0:
            return f
        k = (f, g, h)
        r = self.cache.get(k)
        if r is not None:
            return r
        v = min(self._top(f), self._top(g), self._top(h))

        def co(n, b):
            if n > 1 and self.nodes[n][0] == v:
                return self.nodes[n][2 if b else 1]
            return n
        lo = self.ite(co(f, 0), co(g, 0), co(h, 0))
        hi = self.ite(co(f, 1), co(g, 1), co(h, 1))
        r = self._mk(v, lo, hi)
        self.cache[k] = r
        return r

    def NOT(self, f):
        return self.ite(f, 0, 1)

    def AND(self, f, g):
        return self.ite(f, g, 0)

    def OR(self, f, g):
        return self.ite(f, 1, g)

    def implies(self, f, g):
        """True iff f -> g is a tautology over the atoms (atoms are treated as independent)."""
        return self.ite(f, g, 1) == 1

    def support(self, f, acc=None):
        if acc is None:
            acc = set()
        seen = set()
        stack = [f]
        while stack:
            n = stack.pop()
            if n < 2 or n in seen:
                continue
            seen.add(n)
            v, lo, hi = self.nodes[n]
            acc.add(self.atoms[v])
            stack.append(lo)
            stack.append(hi)
        return acc

    def restrict(self, f, atom, val):
        i = self.atom_ix.get(atom)
        if i is None:
            return f
        memo = {}

        def go(n):
            if n < 2:
                return n
            if n in memo:
                return memo[n]
            v, lo, hi = self.nodes[n]
            if v == i:
                r = go(hi if val else lo)
            elif v > i:
                r = n
            else:
                r = self._mk(v, go(lo), go(hi))
            memo[n] = r
            return r
        return go(f)

    def cubes(self, f, limit=64):
        """Enumerate the paths to TRUE as lists of (atom, polarity) (for reporting / conjunction extraction)."""
        out = []

        def go(n, acc):
            if len(out) >= limit:
                return
            if n == 0:
                return
            if n == 1:
                out.append(list(acc))
                return
            v, lo, hi = self.nodes[n]
            acc.append((self.atoms[v], False))
            go(lo, acc)
            acc.pop()
            acc.append((self.atoms[v], True))
            go(hi, acc)
            acc.pop()
        go(f, [])
        if len(out) >= limit:
            return None      # too many paths: callers must treat the predicate as undecided
        return out

    def as_conjunction(self, f):
        """If f is a pure conjunction of literals return [(atom, polarity)], else None."""
        lits = []
        n = f
        while n > 1:
            v, lo, hi = self.nodes[n]
            if lo == 0:
                lits.append((self.atoms[v], True))
                n = hi
            elif hi == 0:
                lits.append((self.atoms[v], False))
                n = lo
            else:
                return None
        return lits if n == 1 else None

    def necessary_literals(self, f):
        """Literals l such that f -> l (every satisfying path fixes that atom to that polarity)."""
        res = []
        for a in self.support(f):
            if self.restrict(f, a, False) == 0:
                res.append((a, True))
            elif self.restrict(f, a, True) == 0:
                res.append((a, False))
        return res

    def to_str(self, f, fmt=str, depth=0):
        if f == 0:
            return "false"
        if f == 1:
            return "true"
        c = self.as_conjunction(f)
        if c is not None:
            return " & ".join(("" if p else "!") + fmt(a) for a, p in c)
        v, lo, hi = self.nodes[f]
        if depth > 6:
            return "..."
        return "ite(%s, %s, %s)" % (fmt(self.atoms[v]), self.to_str(hi, fmt, depth + 1), self.to_str(lo, fmt, depth + 1))
