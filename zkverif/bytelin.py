"""Byte-linear forms: decide whether an integer / scalar valued engine term is the full-width little-endian
embedding  sum_i b[i] * 256^i  of a byte string (every bit of every byte contributes with its own weight).

Used for `ChannelId::to_scalar`: the channel id enters proofs and signed messages only through this scalar, so a
lossy encoding (masked / dropped / duplicated byte) makes distinct ids verify alike.  Pure term rewriting:
no evaluation.  Unknown constructors are reported, not guessed."""


class NotLinear(Exception):
    pass


def byte_list(S, t, nbytes_of_leaf):
    """List of byte expressions: ('b', leaf, i) for an untouched input byte, anything else = transformed byte."""
    k = t[0]
    if k in ("copied", "refv", "deref", "box"):
        return byte_list(S, t[1], nbytes_of_leaf)
    if k == "slice_of" and t[2][0] == "int" and t[3][0] == "int":
        return byte_list(S, t[1], nbytes_of_leaf)[t[2][1]:t[3][1]]
    if k == "array":
        return [byte_expr(S, e, nbytes_of_leaf) for e in t[1]]
    if k == "upd_idx" and t[2][0] == "int":
        bs = list(byte_list(S, t[1], nbytes_of_leaf))
        if not 0 <= t[2][1] < len(bs):
            raise NotLinear("byte index %d out of range" % t[2][1])
        bs[t[2][1]] = byte_expr(S, t[3], nbytes_of_leaf)
        return bs
    if k == "repeat" and isinstance(t[2], int):
        return [byte_expr(S, t[1], nbytes_of_leaf)] * t[2]
    n = nbytes_of_leaf(t)
    if n is not None:
        return [("b", S.canon(t), i) for i in range(n)]
    raise NotLinear("unrecognised byte-string constructor `%s`" % k)


def byte_expr(S, e, nbytes_of_leaf):
    if e[0] == "int":
        return ("k", e[1])
    if e[0] in ("at", "index") and len(e) >= 3 and e[2][0] == "int":
        bs = byte_list(S, e[1], nbytes_of_leaf)
        return bs[e[2][1]]
    if e[0] == "icast" and e[3] == "u8" and e[2] == "u8":
        return byte_expr(S, e[1], nbytes_of_leaf)
    return ("lossy", e)


def linear(S, t, nbytes_of_leaf):
    """{byte atom: weight} for an integer-valued term (weights as Python ints, before reduction mod q)."""
    k = t[0]
    if k in ("copied", "refv", "deref", "unwrap", "expect"):
        return linear(S, t[1], nbytes_of_leaf)
    if k == "ite":
        # Option-valued decode: only the success arm carries a value
        arms = [a for a in (t[2], t[3]) if not is_none(a)]
        if len(arms) == 1:
            return linear(S, arms[0], nbytes_of_leaf)
        raise NotLinear("value depends on a branch")
    if k == "call" and t[1].endswith(("CtOption::unwrap", "Option::unwrap", "Option::expect", "Result::unwrap", "Result::expect")) and t[2]:
        return linear(S, t[2][0], nbytes_of_leaf)      # partiality is judged separately by the caller
    if k == "struct" and t[1].endswith(("option::Option", "result::Result")) and len(t[3]) == 1:
        return linear(S, t[3][0], nbytes_of_leaf)
    if k in ("some", "Some"):
        return linear(S, t[1], nbytes_of_leaf)
    if k == "variant" or k == "enum":
        for x in t[1:]:
            if isinstance(x, tuple) and x and isinstance(x[0], tuple):
                return linear(S, x[0], nbytes_of_leaf)
        raise NotLinear("unrecognised variant payload")
    if k == "from_raw":
        limbs = t[1]
        if limbs[0] != "array":
            raise NotLinear("from_raw of a non-literal limb array")
        out = {}
        for j, l in enumerate(limbs[1]):
            for a, w in linear(S, l, nbytes_of_leaf).items():
                out[a] = out.get(a, 0) + w * (1 << (64 * j))
        return out
    if k in ("le_int", "be_int"):
        bs = byte_list(S, t[1], nbytes_of_leaf)
        if k == "be_int":
            bs = bs[::-1]
        out = {}
        for i, b in enumerate(bs):
            out[b] = out.get(b, 0) + (1 << (8 * i))
        return out
    if k == "decode" and t[1] in ("Scalar",):
        bs = byte_list(S, t[2], nbytes_of_leaf)
        out = {}
        for i, b in enumerate(bs):
            out[b] = out.get(b, 0) + (1 << (8 * i))
        return out
    if k == "from_int":
        return linear(S, t[1], nbytes_of_leaf)
    if k == "icast":
        return linear(S, t[1], nbytes_of_leaf)
    raise NotLinear("unrecognised integer constructor `%s`" % k)


def is_none(t):
    if t[0] == "struct" and t[1].endswith(("option::Option", "result::Result")) and len(t[3]) == 0:
        return True
    return t[0] in ("none", "None") or (t[0] in ("variant", "enum") and "None" in str(t[1:3]))


def full_embedding(S, t, leaf, n):
    """(True, '') when t == sum_{i<n} leaf[i]*256^i; else (False, reason naming the offending byte)."""
    cl = S.canon(leaf)

    def nb(x):
        return n if S.canon(x) == cl else None
    try:
        lf = linear(S, t, nb)
    except NotLinear as e:
        return False, str(e)
    want = {("b", cl, i): 1 << (8 * i) for i in range(n)}
    if lf == want:
        return True, ""
    for a, w in lf.items():
        if a[0] != "b":
            pos = [i for i in range(8 * n) if w == 1 << i]
            return False, "byte at weight 2^%s enters as %s, not as the input byte" % (pos[0] if pos else "?", S.show(a[1])[:80] if a[0] == "lossy" else a)
    missing = [i for i in range(n) if ("b", cl, i) not in lf]
    if missing:
        return False, "input byte(s) %s do not contribute" % missing
    wrong = [i for i in range(n) if lf.get(("b", cl, i)) != 1 << (8 * i)]
    return False, "input byte(s) %s enter with the wrong weight" % wrong
