"""Check runner plumbing: reports, floors, known findings, evidence, CLI."""
import hashlib
import importlib
import json
import os
import sys
import time
import traceback

from . import facts

VERIF = facts.VERIF
EVID = os.environ.get("ZKV_EVID_DIR") or os.path.join(VERIF, "evidence")
KNOWN = os.path.join(VERIF, "known_findings.jsonl")
FLOORS = os.path.join(VERIF, "spec", "floors.json")


class Finding:
    def __init__(self, pid, rule, key, msg, site=None, detail=None):
        self.pid = pid
        self.rule = rule
        self.key = "%s/%s/%s" % (pid, rule, key)
        self.msg = msg
        self.site = site
        self.detail = detail

    def to_json(self):
        return {"property": self.pid, "rule": self.rule, "key": self.key, "message": self.msg,
                "site": self.site, "detail": self.detail}


class Report:
    def __init__(self, pid, tier, prog):
        self.pid = pid
        self.tier = tier
        self.prog = prog
        self.findings = []
        self.instances = []     # (rule, key, status)
        self.samples = []
        self.functions = set()
        self.call_sites = 0
        self.notes = []
        self.assumptions = []
        self.trusted = []
        self.rules = {}         # rule -> description
        self.nontrivial = set()
        self.floors_checked = []
        self.extra = {}
        self.broken = []        # checker-liveness controls that misbehaved (thorough tier)

    def rule(self, name, desc):
        self.rules[name] = desc

    def ok(self, rule, key, sample=None, nontrivial=True):
        self.instances.append((rule, str(key), "ok"))
        if nontrivial:
            self.nontrivial.add((rule, str(key)))
        if sample is not None and len(self.samples) < 40:
            self.samples.append({"rule": rule, "instance": str(key), "result": "discharged", "fact": _short(sample)})

    def fail(self, rule, key, msg, site=None, detail=None):
        self.instances.append((rule, str(key), "fail"))
        self.nontrivial.add((rule, str(key)))
        self.findings.append(Finding(self.pid, rule, str(key), msg, site, _short(detail) if detail is not None else None))

    def note(self, s):
        self.notes.append(s)

    def fn(self, body):
        self.functions.add(body.path if hasattr(body, "path") else str(body))

    def floor(self, name, got, expected):
        """Fail closed when fewer instances than the hand-confirmed count are found."""
        self.floors_checked.append({"name": name, "got": got, "floor": expected})
        if got < expected:
            self.fail("floor", name, "only %d instance(s) of `%s` found, %d confirmed by hand on the pinned tree: "
                      "an anchor is missing or a rule would pass vacuously" % (got, name, expected))
            return False
        self.instances.append(("floor", name, "ok"))
        return True

    def anchor(self, what, obj):
        """Fail closed on a missing public-API anchor."""
        if obj is None or obj == []:
            self.fail("anchor", what, "anchor `%s` not found in the analysed program" % what)
            return False
        return True


class RuleView:
    """A view of a Report that files the instances of a shared rule function under another rule name
    (a rule owned by one property reused as a necessary condition of another)."""

    def __init__(self, rep, mapping):
        self._rep = rep
        self._map = mapping

    def __getattr__(self, n):
        return getattr(self._rep, n)

    def ok(self, rule, key, sample=None, nontrivial=True):
        self._rep.ok(self._map.get(rule, rule), key, sample=sample, nontrivial=nontrivial)

    def fail(self, rule, key, msg, site=None, detail=None):
        self._rep.fail(self._map.get(rule, rule), key, msg, site=site, detail=detail)


def _short(x, n=1500):
    s = x if isinstance(x, str) else json.dumps(x, default=str)
    return s if len(s) <= n else s[:n] + "..."


def load_known():
    out = []
    if os.path.exists(KNOWN):
        for line in open(KNOWN):
            line = line.strip()
            if not line or line.startswith("#"):
                continue
            out.append(json.loads(line))
    return out


LEVELS = {}


def run_property(pid, tier, replay=None, repo=None):
    t0 = time.time()
    seed = int(os.environ.get("VERIF_SEED", "0") or 0)
    prog = facts.load("default", repo or facts.REPO)
    prog.repo = repo or facts.REPO
    rep = Report(pid, tier, prog)
    mod = importlib.import_module("zkverif.rules.%s" % pid.lower())
    try:
        mod.run(rep)
    except SystemExit:
        raise
    except Exception as e:
        tb = traceback.format_exc()
        rep.fail("engine", "exception", "the checker could not analyse the current tree (fail closed): %r" % (e,),
                 detail=tb[-1800:])
    if tier == "thorough":
        try:
            from . import thorough
            thorough.run(rep)
            if hasattr(mod, "run_thorough"):
                mod.run_thorough(rep)
        except SystemExit:
            raise
        except Exception as e:
            tb = traceback.format_exc()
            rep.fail("engine", "exception-thorough", "thorough tier could not analyse the current tree: %r" % (e,),
                     detail=tb[-1800:])
    known = {k["key"]: k for k in load_known() if k.get("status") == "known" and k.get("property") == pid}
    violations = []
    known_hits = []
    for f in rep.findings:
        if replay and f.key != replay:
            continue
        if f.key in known:
            known_hits.append((f, known[f.key]))
        else:
            violations.append(f)
    os.makedirs(EVID, exist_ok=True)
    os.makedirs(os.path.join(EVID, "replay"), exist_ok=True)
    n_inst = len(rep.instances)
    n_ok = sum(1 for i in rep.instances if i[2] == "ok")
    level = getattr(mod, "LEVEL", "other")
    expl = getattr(mod, "EXPLANATION", "")
    cov = {
        "explanation": expl + " Rules: " + "; ".join("%s = %s" % kv for kv in sorted(rep.rules.items())),
        "obligations": n_inst,
        "discharged": n_ok,
        "evaluations": n_inst,
        "distinct_nontrivial": len(rep.nontrivial),
        "rule": "one evaluation per rule instance enumerated from the extracted MIR facts; an instance is "
                "non-trivial when deciding it needed an engine fact (guard set, provenance, normalised term, interval)",
        "samples": rep.samples[:25] if rep.samples else [{"note": "no sample recorded"}],
        "functions_analysed": sorted(rep.functions),
        "n_functions_analysed": len(rep.functions),
        "bodies_in_program": len(prog.bodies),
        "floors": rep.floors_checked,
        "configs": [prog.config],
        "facts": os.path.basename(prog.facts_dir),
        "checker_cmd": "./check %s --tier %s" % (pid, tier),
        "trusted_base": sorted(set(rep.trusted + [
            "rustc nightly MIR construction and type checking (facts come from rustc's own tables)",
            "foreign-call model table zkverif/models.py (documented contracts of bls12_381, ff, group, sha3, arrayvec, std)"])),
        "notes": rep.notes[:40],
        "known_findings_reported": [f.key for f, _ in known_hits],
        "violations_reported": [f.to_json() for f in violations][:40],
        "exhaustive": True,
    }
    cov.update(rep.extra)
    ev = {
        "property_id": pid,
        "tier": tier,
        "seed": seed,
        "level": level,
        "coverage": cov,
        "assumptions": sorted(set(rep.assumptions)),
        "wall_s": round(time.time() - t0, 3),
        "violations": len(violations),
    }
    with open(os.path.join(EVID, "%s.json" % pid), "w") as f:
        json.dump(ev, f, indent=1, default=str)
    print("[%s] tier=%s instances=%d discharged=%d functions=%d wall=%.1fs" % (
        pid, tier, n_inst, n_ok, len(rep.functions), time.time() - t0))
    for f, k in known_hits:
        print("KNOWN-FINDING: property=%s %s  [%s]" % (pid, k.get("what", f.msg), f.key))
    for f in violations:
        h = hashlib.sha256(f.key.encode()).hexdigest()[:10]
        rp = os.path.join(EVID, "replay", "%s-%s.json" % (pid, h))
        with open(rp, "w") as fh:
            json.dump(f.to_json(), fh, indent=1, default=str)
        print("  rule=%s instance=%s" % (f.rule, f.key))
        print("    %s" % f.msg)
        if f.site:
            print("    at %s" % f.site)
        print("VIOLATION property=%s replay=%s" % (pid, rp))
    if violations:
        return 1
    if rep.broken:
        for b in rep.broken:
            print("CHECK-BROKEN property=%s %s" % (pid, b))
        return 3
    return 0


def main(argv):
    import argparse
    ap = argparse.ArgumentParser()
    ap.add_argument("pid")
    ap.add_argument("--tier", default=os.environ.get("VERIF_TIER", "quick"))
    ap.add_argument("--replay", default=None)
    ap.add_argument("--repo", default=None)
    a = ap.parse_args(argv)
    replay_key = None
    if a.replay:
        with open(a.replay) as f:
            replay_key = json.load(f)["key"]
    tier = a.tier if a.tier in ("quick", "thorough") else "quick"
    if a.pid == "all":
        rc = 0
        props = [json.loads(l)["id"] for l in open(os.path.join(VERIF, "properties.jsonl"))]
        for p in props:
            try:
                rc |= run_property(p, tier, None, a.repo)
            except ModuleNotFoundError:
                print("[%s] no rule module" % p)
        return rc
    return run_property(a.pid, tier, replay_key, a.repo)
