"""Fact extraction (driver invocation + content-addressed cache) and loading.

Everything here is plumbing: the deciding logic lives in the rule modules.
"""
import fcntl
import hashlib
import json
import os
import shutil
import subprocess
import sys
import tempfile
import time

VERIF = os.path.dirname(os.path.dirname(os.path.abspath(__file__)))
REPO = os.environ.get("ZKV_REPO", "/repo")
DRIVER = os.path.join(VERIF, "driver", "target", "release", "zkv-driver")
CACHE = os.path.join(VERIF, ".cache")

CONFIGS = {
    "default": [],
    "bincode": ["--features", "zkchannels-crypto/bincode,zkabacus-crypto/bincode"],
}
CRATES = ["zkchannels_crypto", "zkabacus_crypto"]


def tree_hash(repo=REPO):
    """sha256 over every non-ignored file (tracked, modified or untracked) of the working tree."""
    out = subprocess.run(
        ["git", "-C", repo, "ls-files", "-co", "--exclude-standard", "-z"],
        check=True, capture_output=True).stdout
    names = sorted(n for n in out.split(b"\0") if n)
    h = hashlib.sha256()
    for n in names:
        p = os.path.join(repo.encode(), n)
        if os.path.islink(p) or not os.path.isfile(p):
            continue
        h.update(n + b"\0")
        with open(p, "rb") as f:
            h.update(hashlib.sha256(f.read()).digest())
    with open(DRIVER, "rb") as f:
        h.update(hashlib.sha256(f.read()).digest())
    return h.hexdigest()[:24]


def _sysroot():
    return subprocess.run(["rustc", "+nightly", "--print", "sysroot"], check=True,
                          capture_output=True, text=True).stdout.strip()


def extract(config="default", repo=REPO, verbose=True):
    """Return the directory holding the fact files of `repo`'s current working tree."""
    if not os.path.exists(DRIVER):
        raise SystemExit("zkv-driver not built: run MANIFEST setup_cmd (./setup.sh) first")
    os.makedirs(CACHE, exist_ok=True)
    th = tree_hash(repo)
    key = "%s-%s" % (th, config)
    dest = os.path.join(CACHE, key)
    # one lock per tree state: different trees (self-test variants) extract concurrently
    lock = open(os.path.join(CACHE, ".lock-" + key), "w")
    fcntl.flock(lock, fcntl.LOCK_EX)
    try:
        if all(os.path.exists(os.path.join(dest, c + ".json")) for c in CRATES):
            try:
                os.utime(dest, None)
            except OSError:
                pass
            return dest
        t0 = time.time()
        tgt = tempfile.mkdtemp(prefix="zkv-target-")
        out = tempfile.mkdtemp(prefix="zkv-facts-")
        warm = _warm_deps(config, tgt)
        try:
            env = dict(os.environ)
            env.update({
                "LD_LIBRARY_PATH": _sysroot() + "/lib",
                "ZKV_FACTS_DIR": out,
                "ZKV_WORKSPACE_CRATES": ",".join(CRATES),
                "RUSTFLAGS": "-Zmir-opt-level=0 -Cdebug-assertions=off -Coverflow-checks=on -Awarnings",
                "RUSTC_WORKSPACE_WRAPPER": DRIVER,
                "CARGO_TARGET_DIR": tgt,
                "CARGO_NET_OFFLINE": "true",
            })
            env.pop("RUSTC_WRAPPER", None)
            cmd = ["cargo", "+nightly", "check", "--offline", "--workspace", "--lib"] + CONFIGS[config]
            r = subprocess.run(cmd, cwd=repo, env=env, capture_output=True, text=True)
            if r.returncode != 0:
                sys.stderr.write(r.stderr[-6000:])
                raise SystemExit("fact extraction failed: /repo does not compile (config %s)" % config)
            for c in CRATES:
                if not os.path.exists(os.path.join(out, c + ".json")):
                    raise SystemExit("fact extraction produced no fact file for %s" % c)
            tmpdest = dest + ".tmp%d" % os.getpid()
            shutil.rmtree(tmpdest, ignore_errors=True)
            os.makedirs(tmpdest)
            for c in CRATES:
                shutil.move(os.path.join(out, c + ".json"), os.path.join(tmpdest, c + ".json"))
            shutil.rmtree(dest, ignore_errors=True)
            os.rename(tmpdest, dest)
            if not warm:
                _save_deps(config, tgt)
        finally:
            shutil.rmtree(tgt, ignore_errors=True)
            shutil.rmtree(out, ignore_errors=True)
        if verbose:
            sys.stderr.write("[zkverif] extracted facts (%s) in %.1fs -> %s\n" % (config, time.time() - t0, key))
        _prune(keep=key)
        return dest
    finally:
        fcntl.flock(lock, fcntl.LOCK_UN)
        lock.close()


def _strip_members(tgt):
    """Remove every artefact of the workspace's own crates from a target directory, so that cargo must
    recompile them (through the driver) from the tree being analysed; third-party dependencies stay."""
    stems = tuple(c for c in CRATES) + tuple(c.replace("_", "-") for c in CRATES)
    for root, dirs, files in os.walk(tgt):
        for d in list(dirs):
            if d == "incremental" or d.startswith(stems):
                shutil.rmtree(os.path.join(root, d), ignore_errors=True)
                dirs.remove(d)
        for f in files:
            if f.startswith(stems) or f.startswith(tuple("lib" + c for c in CRATES)):
                try:
                    os.unlink(os.path.join(root, f))
                except OSError:
                    pass


def _deps_dir(config):
    return os.path.join(CACHE, "deps-target-" + config)


def _warm_deps(config, tgt):
    """Pre-populate a fresh target directory with the compiled third-party dependencies of an earlier
    extraction (never with workspace crates: those are always recompiled from the current tree)."""
    d = _deps_dir(config)
    if os.environ.get("ZKV_COLD") or not os.path.isdir(d):
        return False
    r = subprocess.run(["cp", "-a", d + "/.", tgt + "/"], capture_output=True)
    if r.returncode != 0:
        shutil.rmtree(tgt, ignore_errors=True)
        os.makedirs(tgt)
        return False
    _strip_members(tgt)
    return True


def _save_deps(config, tgt):
    d = _deps_dir(config)
    glock = open(os.path.join(CACHE, ".lock-deps"), "w")
    fcntl.flock(glock, fcntl.LOCK_EX)
    try:
        if os.path.isdir(d):
            return
        tmp = d + ".tmp%d" % os.getpid()
        shutil.rmtree(tmp, ignore_errors=True)
        if subprocess.run(["cp", "-a", tgt, tmp], capture_output=True).returncode == 0:
            _strip_members(tmp)
            os.rename(tmp, d)
        else:
            shutil.rmtree(tmp, ignore_errors=True)
    finally:
        fcntl.flock(glock, fcntl.LOCK_UN)
        glock.close()


def _prune(keep, limit=400):
    ents = []
    for n in os.listdir(CACHE):
        p = os.path.join(CACHE, n)
        if os.path.isdir(p) and n != keep and not n.startswith("fixture") and not n.startswith("witness") and not n.startswith("deps-target"):
            ents.append((os.path.getmtime(p), p))
    ents.sort()
    for _, p in ents[:-limit] if len(ents) > limit else []:
        shutil.rmtree(p, ignore_errors=True)


# ------------------------------------------------------------------ loading
class Body:
    __slots__ = ("id", "path", "kind", "vis", "span", "argc", "generics", "locals", "names",
                 "blocks", "crate", "desc", "_preds", "promoted")

    def __repr__(self):
        return "<Body %s>" % self.id

    @property
    def file(self):
        return self.span["file"]

    @property
    def from_expansion(self):
        return self.span["exp"]

    def loc(self, ln=None):
        return "%s:%s" % (self.span["file"], ln if ln is not None else self.span["lo"])

    def local_name(self, l):
        for n in self.names:
            if n["p"]["l"] == l and not n["p"]["p"]:
                return n["n"]
        return None

    def calls(self):
        """Yield (block index, terminator) for every non-cleanup call terminator."""
        for i, bb in enumerate(self.blocks):
            if bb["cleanup"]:
                continue
            t = bb["term"]
            if t["k"] in ("call", "tailcall"):
                yield i, t


class Program:
    """All crates' facts merged into global tables keyed by def-id strings."""

    def __init__(self):
        self.defs = {}      # id -> descriptor
        self.bodies = {}    # id -> Body
        self.adts = {}      # path -> adt record (fields with converted types)
        self.impls = []     # impl records
        self.traits = {}
        self.consts = {}    # path -> record
        self.crates = []
        self.closures_of = {}  # parent id -> [closure ids]

    # -- helpers
    def body_by_path(self, path):
        r = [b for b in self.bodies.values() if b.path == path]
        return r

    def find_bodies(self, pred):
        return [b for b in self.bodies.values() if pred(b)]

    def method(self, adt_path, name, trait=None):
        """Bodies of (inherent or trait-impl) methods `name` whose impl self type is the ADT `adt_path`."""
        out = []
        for b in self.bodies.values():
            d = b.desc
            if d.get("name") != name or d.get("container") != "impl":
                continue
            st = d.get("self_ty")
            if not st or strip_refs(st)[0] != "adt" or strip_refs(st)[1] != adt_path:
                continue
            if st[0] != "adt":
                continue
            if trait is None and "trait" in d:
                continue
            if trait is not None and d.get("trait") != trait:
                continue
            out.append(b)
        return out

    def free_fn(self, path):
        for b in self.bodies.values():
            if b.kind == "Fn" and strip_generics(b.path) == path:
                return b
        return None

    def trait_impls(self, trait):
        return [i for i in self.impls if i.get("trait") == trait]


def strip_refs(t):
    while t[0] == "ref":
        t = t[2]
    return t


def strip_generics(path):
    """Remove `::<...>` generic argument segments from a printed def path."""
    out = []
    depth = 0
    i = 0
    while i < len(path):
        if depth == 0 and path.startswith("::<", i):
            depth = 1
            i += 3
            continue
        c = path[i]
        if depth > 0:
            if c == "<":
                depth += 1
            elif c == ">":
                depth -= 1
            i += 1
            continue
        out.append(c)
        i += 1
    return "".join(out)


def ty_str(t):
    k = t[0]
    if k == "prim":
        return t[1]
    if k == "adt":
        if t[2]:
            return "%s<%s>" % (t[1].split("::")[-1], ", ".join(ty_str(a) for a in t[2]))
        return t[1].split("::")[-1]
    if k == "ref":
        return ("&mut " if t[1] else "&") + ty_str(t[2])
    if k == "ptr":
        return ("*mut " if t[1] else "*const ") + ty_str(t[2])
    if k == "array":
        return "[%s; %s]" % (ty_str(t[1]), t[2])
    if k == "slice":
        return "[%s]" % ty_str(t[1])
    if k == "tuple":
        return "(%s)" % ", ".join(ty_str(a) for a in t[1])
    if k == "param":
        return t[1]
    if k == "const":
        return str(t[1])
    if k == "closure":
        return "{closure %s}" % t[1]
    if k == "fndef":
        return "fn{%s}" % t[1]
    return t[-1] if isinstance(t[-1], str) else k


def _load_crate(prog, path):
    with open(path) as f:
        d = json.load(f)
    rawT = d["types"]
    rawD = d["defs"]
    tcache = {}

    def conv_arg(a):
        if isinstance(a, int):
            return conv_ty(a)
        c = a["const"]
        return ("const", c)

    def conv_ty(i):
        if i in tcache:
            return tcache[i]
        r = rawT[i]
        k = r["k"]
        if k == "prim":
            t = ("prim", r["n"])
        elif k == "adt":
            t = ("adt", strip_generics(r["p"]), tuple(conv_arg(a) for a in r["a"]))
        elif k == "ref":
            t = ("ref", r["m"], conv_ty(r["t"]))
        elif k == "ptr":
            t = ("ptr", r["m"], conv_ty(r["t"]))
        elif k == "array":
            t = ("array", conv_ty(r["t"]), r["n"])
        elif k == "slice":
            t = ("slice", conv_ty(r["t"]))
        elif k == "tuple":
            t = ("tuple", tuple(conv_ty(x) for x in r["ts"]))
        elif k == "param":
            t = ("param", r["n"])
        elif k == "closure":
            t = ("closure", rawD[r["d"]]["id"])
        elif k == "fndef":
            t = ("fndef", rawD[r["d"]]["id"], tuple(conv_arg(a) for a in r["a"]))
        else:
            t = (k, r["s"])
        tcache[i] = t
        return t

    def conv_def(i):
        r = rawD[i]
        did = r["id"]
        if did in prog.defs:
            return did
        desc = dict(r)
        desc["qpath"] = strip_generics(r["path"])
        if "self_ty" in desc:
            desc["self_ty"] = conv_ty(desc["self_ty"])
        prog.defs[did] = desc
        return did

    for i in range(len(rawD)):
        conv_def(i)

    def conv_place(p):
        proj = []
        for e in p["p"]:
            if isinstance(e, str):
                proj.append((e,))
            elif "f" in e:
                proj.append(("f", e["f"], e.get("n"), conv_ty(e["t"])))
            elif "idx" in e:
                proj.append(("idx", e["idx"]))
            elif "cidx" in e:
                proj.append(("cidx", e["cidx"], e["from_end"], e["min"]))
            elif "sub_from" in e:
                proj.append(("sub", e["sub_from"], e["sub_to"], e["from_end"]))
            elif "down" in e:
                proj.append(("down", e["down"], e["n"]))
            else:
                proj.append(("?",))
        return (p["l"], tuple(proj))

    def conv_op(o):
        if "copy" in o:
            return ("copy", conv_place(o["copy"]))
        if "move" in o:
            return ("move", conv_place(o["move"]))
        if "const" in o:
            c = o["const"]
            r = {"ty": conv_ty(c["ty"])}
            if "fn" in c:
                r["fn"] = rawD[c["fn"]]["id"]
                r["args"] = tuple(conv_arg(a) for a in c["args"])
            if "item" in c:
                r["item"] = rawD[c["item"]]["id"]
                r["item_path"] = strip_generics(rawD[c["item"]]["path"])
                if "promoted" in c:
                    r["promoted"] = c["promoted"]
            for k in ("int", "bits", "zst", "str", "bytes", "tyconst", "ptr", "indirect"):
                if k in c:
                    r[k] = c[k]
            if "int" in r:
                r["int"] = int(r["int"])
            return ("const", r)
        return ("opaque", o.get("opaque"))

    def conv_rv(rv):
        k = rv["k"]
        if k == "use":
            return ("use", conv_op(rv["x"]))
        if k == "ref":
            return ("ref", rv["m"], conv_place(rv["p"]))
        if k == "rawptr":
            return ("rawptr", rv["m"], conv_place(rv["p"]))
        if k == "cast":
            return ("cast", rv["ck"], conv_op(rv["x"]), conv_ty(rv["from"]), conv_ty(rv["to"]))
        if k == "binop":
            return ("binop", rv["op"], conv_op(rv["a"]), conv_op(rv["b"]), conv_ty(rv["ty"]))
        if k == "unop":
            return ("unop", rv["op"], conv_op(rv["a"]), conv_ty(rv["ty"]))
        if k == "discr":
            return ("discr", conv_place(rv["p"]))
        if k == "repeat":
            return ("repeat", conv_op(rv["x"]), rv["n"])
        if k == "agg":
            xs = tuple(conv_op(x) for x in rv["xs"])
            ak = rv["ak"]
            if ak == "adt":
                return ("agg", "adt", strip_generics(rv["p"]), rv["variant"], rv["vname"],
                        tuple(conv_arg(a) for a in rv["args"]), xs)
            if ak == "closure":
                return ("agg", "closure", rawD[rv["closure"]]["id"], xs)
            if ak == "array":
                return ("agg", "array", conv_ty(rv["t"]), xs)
            return ("agg", ak, xs)
        return ("other", rv.get("s", ""))

    def conv_term(t):
        r = dict(t)
        k = t["k"]
        if k in ("call", "tailcall"):
            if "callee" in t:
                r["callee"] = rawD[t["callee"]]["id"]
                r["gargs"] = tuple(conv_arg(a) for a in t["gargs"])
                if "resolved" in t:
                    r["resolved"] = rawD[t["resolved"]]["id"]
                    r["rargs"] = tuple(conv_arg(a) for a in t["rargs"])
            else:
                r["callee"] = None
                r["indirect"] = conv_op(t["indirect"])
            r["args"] = [conv_op(a) for a in t["args"]]
            if "dest" in t:
                r["dest"] = conv_place(t["dest"])
        elif k == "switch":
            r["x"] = conv_op(t["x"])
            r["ty"] = conv_ty(t["ty"])
            r["arms"] = [(int(v), b) for v, b in t["arms"]]
        elif k == "drop":
            r["p"] = conv_place(t["p"])
        elif k == "assert":
            r["cond"] = conv_op(t["cond"])
            r["ops"] = [conv_op(a) for a in t["ops"]]
        return r

    crate = d["crate"]
    prog.crates.append(crate)
    for a in d["adts"]:
        rec = dict(a)
        rec["path"] = strip_generics(a["path"])
        rec["crate"] = crate
        vs = []
        for v in a["variants"]:
            vs.append({"n": v["n"], "ctor": v["ctor"],
                       "fields": [{"n": f["n"], "t": conv_ty(f["t"]), "vis": f["vis"]} for f in v["fields"]]})
        rec["variants"] = vs
        prog.adts[rec["path"]] = rec
    for im in d["impls"]:
        rec = dict(im)
        rec["crate"] = crate
        rec["self_ty"] = conv_ty(im["self_ty"])
        if "trait" in rec:
            rec["trait"] = strip_generics(rec["trait"])
            rec["trait_args"] = tuple(conv_arg(a) for a in im["trait_args"])
        for it in rec["items"]:
            it["def"] = rawD[it["def"]]["id"]
        prog.impls.append(rec)
    for t in d["traits"]:
        prog.traits[strip_generics(t["path"])] = t
    for c in d["consts"]:
        rec = dict(c)
        rec["path"] = strip_generics(c["path"])
        rec["ty"] = conv_ty(c["ty"])
        if "int" in rec:
            rec["int"] = int(rec["int"])
        prog.consts[rec["path"]] = rec
    for b in d["bodies"]:
        o = Body()
        o.id = b["id"]
        o.path = b["path"]
        o.kind = b["kind"]
        o.vis = b.get("vis")
        o.span = b["span"]
        o.argc = b["argc"]
        o.generics = b["generics"]
        o.locals = [conv_ty(t) for t in b["locals"]]
        o.names = [{"n": n["n"], "p": {"l": n["p"]["l"], "p": n["p"]["p"]}} for n in b["names"]]
        o.crate = crate
        o.desc = prog.defs[o.id]
        o._preds = None
        blocks = []
        for bb in b["blocks"]:
            stmts = []
            for s in bb["stmts"]:
                if s["k"] == "assign":
                    stmts.append(("assign", conv_place(s["p"]), conv_rv(s["rv"]), s["ln"], s["exp"]))
                elif s["k"] == "setdiscr":
                    stmts.append(("setdiscr", conv_place(s["p"]), s["variant"]))
                else:
                    stmts.append(("intrinsic", s.get("s", "")))
            blocks.append({"stmts": stmts, "term": conv_term(bb["term"]), "cleanup": bb["cleanup"]})
        o.blocks = blocks
        o.promoted = []
        for pb in b.get("promoted", []):
            q = Body()
            q.id = o.id
            q.path = o.path + "::{promoted}"
            q.kind = "Promoted"
            q.vis = None
            q.span = o.span
            q.argc = 0
            q.generics = o.generics
            q.locals = [conv_ty(t) for t in pb["locals"]]
            q.names = []
            q.crate = crate
            q.desc = o.desc
            q._preds = None
            q.promoted = []
            pbl = []
            for bb in pb["blocks"]:
                stmts = []
                for s in bb["stmts"]:
                    if s["k"] == "assign":
                        stmts.append(("assign", conv_place(s["p"]), conv_rv(s["rv"]), s["ln"], s["exp"]))
                pbl.append({"stmts": stmts, "term": conv_term(bb["term"]), "cleanup": bb["cleanup"]})
            q.blocks = pbl
            o.promoted.append(q)
        prog.bodies[o.id] = o
        if o.kind == "Closure":
            prog.closures_of.setdefault(o.desc.get("closure_of"), []).append(o.id)
    return d


def load(config="default", repo=REPO):
    d = extract(config, repo)
    prog = Program()
    for c in CRATES:
        _load_crate(prog, os.path.join(d, c + ".json"))
    prog.facts_dir = d
    prog.config = config
    return prog


if __name__ == "__main__":
    p = load()
    print(len(p.bodies), "bodies", len(p.adts), "adts", len(p.impls), "impls", len(p.defs), "defs")
