"""Pretty printer for engine terms (reports and evidence samples)."""


class Fmt:
    def __init__(self, eng, argnames=None, maxlen=4000):
        self.eng = eng
        self.argnames = argnames or {}
        self.maxlen = maxlen

    def __call__(self, t):
        s = self.f(t, 0)
        return s if len(s) <= self.maxlen else s[: self.maxlen] + "..."

    def field_name(self, base, i):
        return str(i)

    def poly(self, fz, d):
        parts = []
        for m, c in fz:
            fs = [self.f(a, d + 1) + ("^%d" % p if p != 1 else "") for a, p in m]
            if c == 1 and fs:
                s = "*".join(fs)
            elif c == -1 and fs:
                s = "-" + "*".join(fs)
            else:
                s = "*".join([str(c)] + fs)
            parts.append(s)
        return " + ".join(parts) if parts else "0"

    def bdd(self, n, d=0):
        return self.eng.bdd.to_str(n, lambda a: self.f(a, d + 1))

    def f(self, t, d):
        if not isinstance(t, tuple):
            return str(t)
        if d > 40:
            return "..."
        k = t[0] if t else ""
        F = lambda x: self.f(x, d + 1)
        if k == "arg":
            return self.argnames.get(t[1], "arg%d" % t[1])
        if k == "int":
            return str(t[1])
        if k == "b":
            return "[" + self.bdd(t[1], d) + "]"
        if k == "ITE":
            alg = getattr(self, "alg", None)
            cs = alg.bdd.to_str(t[1], lambda a: self.f(a, d + 1)) if alg is not None else "B%d" % t[1]
            return "if %s {%s} else {%s}" % (cs, F(t[2]), F(t[3]))
        if k == "B":
            alg = getattr(self, "alg", None)
            if alg is None:
                return "[B%d]" % t[1]
            return "[" + alg.bdd.to_str(t[1], lambda a: self.f(a, d + 1)) + "]"
        if k == "field":
            if len(t) == 3:
                return "%s.%s" % (F(t[1]), self.field_name(t[1], t[2]))
            return "%s.%s" % (F(t[1]), t[3] if t[3] is not None else t[2])
        if k == "poly":
            return "(" + self.poly(t[1], d) + ")"
        if k == "Z":
            return self.poly(t[1], d) + " == 0"
        if k == "PP":
            return "PP{" + self.poly(t[1], d) + "} == 1"
        if k == "vs":
            return "Sum_i(" + " * ".join((F(a) + ("^%d" % p if p != 1 else "")) for a, p in t[1]) + ")"
        if k == "E":
            return F(t[1]) + "[i]"
        if k == "I":
            return "i"
        if k == "V":
            return "vec_i(%s; n=%s)" % (F(t[1]), t[2])
        if k == "enc":
            return "enc(%s)" % F(t[1])
        if k == "any":
            return "any_i(%s)" % F(t[1])
        if k == "mml":
            return "mml{" + ", ".join("(%s, %s)" % (F(a), F(b)) if isinstance(a, tuple) and len(p) == 2 else F(p) for p in t[1] for a, b in [p if len(p) == 2 else (p, p)]) + "}"
        if k == "vfield":
            return "(%s as v%d).%d" % (F(t[1]), t[2], t[3])
        if k == "at":
            return "%s[%s]" % (F(t[1]), F(t[2]))
        if k in ("mul", "add", "sub"):
            return "(%s %s %s)" % (F(t[1]), {"mul": "*", "add": "+", "sub": "-"}[k], F(t[2]))
        if k == "neg":
            return "-%s" % F(t[1])
        if k == "ite":
            return "if %s {%s} else {%s}" % (self.bdd(t[1], d), F(t[2]), F(t[3]))
        if k == "struct":
            name = t[1].split("::")[-1]
            rec = self.eng.prog.adts.get(t[1])
            vn = None
            if rec and len(rec["variants"]) > 1 or name in ("Option", "Result", "ControlFlow"):
                if name == "Option":
                    vn = ["None", "Some"][t[2]]
                elif name == "Result":
                    vn = ["Ok", "Err"][t[2]]
                elif name == "ControlFlow":
                    vn = ["Continue", "Break"][t[2]]
                elif rec:
                    vn = rec["variants"][t[2]]["n"]
            head = vn if vn else name
            if not t[3]:
                return head
            return "%s(%s)" % (head, ", ".join(F(x) for x in t[3]))
        if k == "tuple":
            return "(%s)" % ", ".join(F(x) for x in t[1])
        if k == "array":
            return "[%s]" % ", ".join(F(x) for x in t[1])
        if k == "eqv":
            return "%s == %s" % (F(t[1]), F(t[2]))
        if k == "eq":
            return "%s == %s" % (F(t[1]), F(t[2]))
        if k == "icmp":
            return "%s %s %s" % (F(t[2]), {"Lt": "<", "Le": "<=", "Eq": "=="}.get(t[1], t[1]), F(t[3]))
        if k == "vmap":
            return "map<%d>(%s over %s)" % (t[1], F(t[2]), ", ".join(F(x) for x in t[3]))
        if k == "elem":
            return "e%d.%d" % (t[1], t[2])
        if k == "idx":
            return "i%d" % t[1]
        if k == "lv":
            return "lv%d.c%d" % (t[1], t[2])
        if k == "loopout":
            return "loopout%d.c%d" % (t[1], t[2])
        if k == "vsum":
            return "sum(%s)" % F(t[1])
        if k == "refs" or k == "vals":
            return F(t[1])
        if k == "ref":
            return "&cell%d%s" % (t[1], "".join("." + str(e[1]) for e in t[2]))
        if k == "refv":
            return "&" + F(t[1])
        if k == "box":
            return F(t[1])
        if k == "rand":
            ix = "".join("[%s]" % self.f(x, d + 1) for x in t[3]) if len(t) > 3 else ""
            return "rand_%s#%x%s" % (t[1], hash(t[2]) & 0xffff, ix)
        if k == "call":
            return "%s(%s)" % (t[1].split("::")[-1], ", ".join(F(x) for x in t[2]))
        if k == "const":
            return t[1].split("::")[-1]
        if k == "anyiter":
            return "any<%d>%s" % (t[1], F(t[2]))
        if k == "closure":
            return "closure{%s}" % t[1].split("::")[-2:]
        return "%s(%s)" % (k, ", ".join(F(x) for x in t[1:]))
