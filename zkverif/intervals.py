"""E5: interval abstract interpretation over engine terms (mathematical integers).

`Intervals(S, types)` computes a sound interval for every integer-valued term, using
 * the declared integer types of leaves (arguments, struct fields: type table),
 * type invariants supplied by the caller (`invariants`: ADT path -> (lo, hi) of its integer field),
 * refinements from a path predicate (literals `x < K`, `fits(x)`, ...),
 * loop-carried cells: least fixpoint with widening to the type range.
Obligations (overflow / bounds / casts) are discharged by comparing intervals.
"""
from .sym import INT_RANGES

FULL = (-(1 << 200), 1 << 200)


def join(a, b):
    if a is None:
        return b
    if b is None:
        return a
    return (min(a[0], b[0]), max(a[1], b[1]))


def meet(a, b):
    return (max(a[0], b[0]), min(a[1], b[1]))


class Intervals:
    def __init__(self, S, leaf_types=None, invariants=None):
        self.S = S
        self.eng = S.eng
        self.prog = S.prog
        self.leaf_types = leaf_types or {}     # term -> type tuple
        self.invariants = invariants or {}     # adt path -> (lo, hi) for its single integer field
        self.refine = {}                       # term -> interval
        self.memo = {}
        self.lv = {}                           # (uid, cell) -> interval during fixpoint
        self.used_invariants = set()
        self.nowrap = set()                    # (op, a, b, ty) known not to overflow on this path

    # ------------------------------------------------------------ types of symbolic terms
    def type_of(self, t):
        if t in self.leaf_types:
            return self.leaf_types[t]
        if t[0] == "field":
            bt = self.type_of(t[1])
            if bt is None:
                return None
            while bt[0] == "ref":
                bt = bt[2]
            if bt[0] == "adt":
                rec = self.prog.adts.get(bt[1])
                if rec and len(rec["variants"]) == 1 and t[2] < len(rec["variants"][0]["fields"]):
                    return rec["variants"][0]["fields"][t[2]]["t"]
            if bt[0] == "tuple" and t[2] < len(bt[1]):
                return bt[1][t[2]]
        if t[0] == "deref":
            bt = self.type_of(t[1])
            if bt is not None and bt[0] == "ref":
                return bt[2]
        return None

    def assume(self, pc):
        """Refinements from the necessary literals of a path predicate (engine BDD)."""
        for atom, pol in self.eng.bdd.necessary_literals(pc):
            self.assume_literal(atom, pol)

    def assume_literal(self, atom, pol):
        if atom[0] == "icmp":
            op, a, b = atom[1], atom[2], atom[3]
            if not pol:
                # !(a < b) == b <= a ; !(a <= b) == b < a
                if op == "Lt":
                    op, a, b = "Le", b, a
                elif op == "Le":
                    op, a, b = "Lt", b, a
                elif op == "Eq":
                    return
            if op == "Eq":
                rb = self.range(b)
                ra = self.range(a)
                self.refine[a] = meet(self.refine.get(a, FULL), rb)
                self.refine[b] = meet(self.refine.get(b, FULL), ra)
            elif op in ("Lt", "Le"):
                d = 1 if op == "Lt" else 0
                rb = self.range(b)
                ra = self.range(a)
                self.refine[a] = meet(self.refine.get(a, FULL), (FULL[0], rb[1] - d))
                self.refine[b] = meet(self.refine.get(b, FULL), (ra[0] + d, FULL[1]))
            self.memo.clear()
        elif atom[0] == "overflow":
            if not pol:
                self.nowrap.add((atom[1], atom[2], atom[3], atom[4]))
        elif atom[0] == "fits" and pol:
            r = INT_RANGES.get(atom[3])
            if r:
                self.refine[atom[1]] = meet(self.refine.get(atom[1], FULL), r)
                self.memo.clear()
        elif atom[0] == "fits" and not pol:
            # failing conversion: value outside the target range (only the one-sided case matters here)
            r = INT_RANGES.get(atom[3])
            src = INT_RANGES.get(atom[2])
            if r and src and src[0] >= r[0]:
                self.refine[atom[1]] = meet(self.refine.get(atom[1], FULL), (r[1] + 1, FULL[1]))
                self.memo.clear()

    # ------------------------------------------------------------ ranges
    def range(self, t):
        r = self.memo.get(t)
        if r is None:
            r = self._range(t)
            ref = self.refine.get(t)
            if ref is not None:
                r = meet(r, ref)
            self.memo[t] = r
        return r

    def ty_range(self, ts):
        return INT_RANGES.get(ts, FULL)

    def _range(self, t):
        k = t[0]
        if k == "int":
            return (t[1], t[1])
        if k == "icast":
            r = self.range(t[1])
            tr = self.ty_range(t[3])
            if tr[0] <= r[0] and r[1] <= tr[1]:
                return r
            return tr
        if k == "iadd":
            a, b = self.range(t[1]), self.range(t[2])
            return self.clip((a[0] + b[0], a[1] + b[1]), t[3] if len(t) > 3 else None)
        if k == "isub":
            a, b = self.range(t[1]), self.range(t[2])
            return self.clip((a[0] - b[1], a[1] - b[0]), t[3] if len(t) > 3 else None)
        if k == "imul":
            a, b = self.range(t[1]), self.range(t[2])
            c = [a[0] * b[0], a[0] * b[1], a[1] * b[0], a[1] * b[1]]
            return self.clip((min(c), max(c)), t[3] if len(t) > 3 else None)
        if k == "irem":
            a, b = self.range(t[1]), self.range(t[2])
            if b[0] > 0 and a[0] >= 0:
                return (0, min(a[1], b[1] - 1))
            m = max(abs(b[0]), abs(b[1]))
            return (-(m - 1), m - 1)
        if k == "idiv":
            a, b = self.range(t[1]), self.range(t[2])
            if b[0] > 0 and a[0] >= 0:
                return (a[0] // b[1], a[1] // b[0])
            return self.ty_range(t[3]) if len(t) > 3 else FULL
        if k == "ibitand":
            a, b = self.range(t[1]), self.range(t[2])
            # x & m with a non-negative operand is in [0, that operand]
            cands = [r[1] for r in (a, b) if r[0] >= 0]
            if cands:
                return (0, min(cands))
            return self.ty_range(t[3]) if len(t) > 3 else FULL
        if k == "ishr":
            a = self.range(t[1])
            if a[0] >= 0:
                return (0, a[1])
            return self.ty_range(t[3]) if len(t) > 3 else FULL
        if k == "ineg":
            a = self.range(t[1])
            return (-a[1], -a[0])
        if k == "iabs":
            a = self.range(t[1])
            lo = 0 if a[0] <= 0 <= a[1] else min(abs(a[0]), abs(a[1]))
            return (lo, max(abs(a[0]), abs(a[1])))
        if k == "iuabs":
            a = self.range(t[1])
            lo = 0 if a[0] <= 0 <= a[1] else min(abs(a[0]), abs(a[1]))
            return (lo, max(abs(a[0]), abs(a[1])))
        if k == "ite":
            return join(self.range(t[2]), self.range(t[3]))
        if k in ("isatsub", "isatadd", "iwrapadd", "iwrapsub", "iwrapmul"):
            a, b = self.range(t[1]), self.range(t[2])
            tr = self.ty_range(t[3])
            if k == "isatsub":
                r = (a[0] - b[1], a[1] - b[0])
            elif k == "isatadd":
                r = (a[0] + b[0], a[1] + b[1])
            elif k == "iwrapadd":
                r = (a[0] + b[0], a[1] + b[1])
            elif k == "iwrapsub":
                r = (a[0] - b[1], a[1] - b[0])
            else:
                c = [a[0] * b[0], a[0] * b[1], a[1] * b[0], a[1] * b[1]]
                r = (min(c), max(c))
            if tr[0] <= r[0] and r[1] <= tr[1]:
                return r
            if k.startswith("isat"):
                return (max(r[0], tr[0]), min(r[1], tr[1])) if r[0] <= tr[1] and r[1] >= tr[0] else tr
            return tr
        if k == "imin":
            a, b = self.range(t[1]), self.range(t[2])
            return (min(a[0], b[0]), min(a[1], b[1]))
        if k == "imax":
            a, b = self.range(t[1]), self.range(t[2])
            return (max(a[0], b[0]), max(a[1], b[1]))
        if k == "lv":
            r = self.lv.get((t[1], t[2]))
            if r is not None:
                return r
            return self.loop_var(t[1], t[2])
        if k in ("loopout", "some_iter"):
            return self.loop_var(t[1], t[2])
        if k == "idx":
            return self.idx_range(t[1])
        if k == "elem":
            return self.elem_range(t[1], t[2])
        if k == "at":
            return self.vec_elem_range(t[1])
        if k == "len":
            return (0, (1 << 63) - 1)
        # newtype invariants: field 0 of an invariant-carrying ADT
        if k == "field":
            bt = self.type_of(t[1])
            if bt is not None:
                while bt[0] == "ref":
                    bt = bt[2]
                if bt[0] == "adt" and bt[1] in self.invariants:
                    self.used_invariants.add(bt[1])
                    return self.invariants[bt[1]]
        ty = self.type_of(t)
        if ty is not None:
            if ty[0] == "prim":
                return self.ty_range(ty[1])
        return FULL

    def clip(self, r, ts):
        return r

    def idx_range(self, uid):
        n = None
        info = self.eng.loops.get(uid)
        from .models import shape_len, leaves_of
        if info is not None and info.src is not None:
            n = shape_len(self.eng, info.src)
        else:
            leaves = self.eng.__dict__.get("vmaps", {}).get(uid)
            if leaves:
                for lf in leaves:
                    m = shape_len(self.eng, lf)
                    if isinstance(m, int):
                        n = m if n is None else min(n, m)
        if isinstance(n, int):
            return (0, max(n - 1, 0))
        return (0, (1 << 63) - 1)

    def elem_range(self, uid, j):
        from .models import leaves_of
        info = self.eng.loops.get(uid)
        leaves = None
        if info is not None and info.src is not None:
            leaves = leaves_of(info.src)
        else:
            leaves = self.eng.__dict__.get("vmaps", {}).get(uid)
        if not leaves or j >= len(leaves):
            return FULL
        lf = leaves[j]
        if lf[0] in ("refs", "vals"):
            return self.vec_elem_range(lf[1])
        if lf[0] == "range":
            a, b = self.range(lf[1]), self.range(lf[2])
            return (a[0], b[1] - 1)
        return self.vec_elem_range(lf)

    def vec_elem_range(self, v):
        k = v[0]
        if k == "array":
            r = None
            for e in v[1]:
                r = join(r, self.range(e))
            return r if r is not None else FULL
        if k == "repeat":
            return self.range(v[1])
        if k == "box":
            return self.vec_elem_range(v[1])
        if k == "vmap":
            return self.range(v[2])
        if k in ("loopout", "lv", "some_iter"):
            return self.loop_vec(v[1], v[2])
        if k == "upd_idx":
            return join(self.vec_elem_range(v[1]), self.range(v[3]))
        ty = self.type_of(v)
        if ty is not None:
            while ty[0] == "ref":
                ty = ty[2]
            if ty[0] in ("array", "slice") and ty[1][0] == "prim":
                return self.ty_range(ty[1][1])
        return FULL

    def loop_var(self, uid, c):
        """Interval of a scalar loop-carried cell at any iteration (and after the loop)."""
        key = (uid, c)
        if key in self.lv:
            return self.lv[key]
        info = self.eng.loops.get(uid)
        if info is None or c not in info.step:
            return FULL
        cur = self.range(info.init[c])
        for it in range(6):
            self.lv[key] = cur
            self.memo.clear()
            nxt = join(cur, self.range(info.step[c]))
            if nxt == cur:
                break
            cur = nxt
            if it >= 3:
                cur = FULL
        self.lv[key] = cur
        self.memo.clear()
        return cur

    def loop_vec(self, uid, c):
        """Interval of the elements of an array-valued loop-carried cell."""
        info = self.eng.loops.get(uid)
        if info is None or c not in info.step:
            return FULL
        r = self.vec_elem_range(info.init[c])
        st = info.step[c]
        # elements written during the loop
        seen = 0
        while st[0] == "upd_idx" and seen < 8:
            r = join(r, self.range(st[3]))
            st = st[1]
            seen += 1
        if st != ("lv", uid, c):
            return FULL
        return r
