"""Exact linear integer semantics of engine terms (casts / checked operators proven non-wrapping
by intervals under the current path predicate), case expansion of ite-terms, and conversion of
path predicates into unions of octagonal constraint conjunctions."""
from .intervals import Intervals, FULL
from .sym import INT_RANGES


def expand(S, t, pc=1, limit=64):
    """[(pc, ite-free term)] : all gated alternatives of a term."""
    eng = S.eng
    bdd = eng.bdd
    out = []

    def go(x, pc):
        if len(out) > limit:
            return
        pos = find_ite(x)
        if pos is None:
            out.append((pc, x))
            return
        c, a, b = pos[1], pos[2], pos[3]
        p1 = bdd.AND(pc, c)
        p0 = bdd.AND(pc, bdd.NOT(c))
        if p1 != 0:
            go(replace(x, pos, a), p1)
        if p0 != 0:
            go(replace(x, pos, b), p0)
    go(t, pc)
    return out


def find_ite(t):
    if not isinstance(t, tuple) or not t:
        return None
    if t[0] == "ite":
        return t
    if t[0] == "b":
        return None
    for x in t:
        r = find_ite(x)
        if r is not None:
            return r
    return None


def replace(t, old, new):
    if t is old:
        return new
    if not isinstance(t, tuple):
        return t
    if t == old:
        return new
    return tuple(replace(x, old, new) for x in t)


class Lin:
    """Linear integer form  sum coeff*var + const  over opaque variables (terms)."""

    def __init__(self, coeffs=None, const=0):
        self.c = {k: v for k, v in (coeffs or {}).items() if v != 0}
        self.k = const

    def add(self, o, s=1):
        c = dict(self.c)
        for v, k in o.c.items():
            c[v] = c.get(v, 0) + s * k
        return Lin(c, self.k + s * o.k)

    def scale(self, s):
        return Lin({v: k * s for v, k in self.c.items()}, self.k * s)

    def key(self):
        return (tuple(sorted(self.c.items(), key=lambda kv: repr(kv[0]))), self.k)

    def __eq__(self, o):
        return isinstance(o, Lin) and self.key() == o.key()

    def __repr__(self):
        return "Lin(%s, %d)" % (self.c, self.k)


def exact_int(S, iv, t):
    """Linear form of an integer term when every cast / operator on the way is value-preserving
    for all values admitted by `iv`'s assumptions; None otherwise."""
    k = t[0]
    if k == "int":
        return Lin({}, t[1])
    if k == "icast":
        r = iv.range(t[1])
        tr = INT_RANGES.get(t[3])
        if tr is None or not (tr[0] <= r[0] and r[1] <= tr[1]):
            return None
        return exact_int(S, iv, t[1])
    if k in ("iadd", "isub"):
        a, b = exact_int(S, iv, t[1]), exact_int(S, iv, t[2])
        if a is None or b is None:
            return None
        ra, rb = iv.range(t[1]), iv.range(t[2])
        r = (ra[0] + rb[0], ra[1] + rb[1]) if k == "iadd" else (ra[0] - rb[1], ra[1] - rb[0])
        tr = INT_RANGES.get(t[3]) if len(t) > 3 else None
        if tr is not None and not (tr[0] <= r[0] and r[1] <= tr[1]):
            # may wrap / trap unless this path is guarded by the operation's own no-overflow check
            if ("Add" if k == "iadd" else "Sub", t[1], t[2], t[3]) not in iv.nowrap:
                return None
        return a.add(b, 1 if k == "iadd" else -1)
    if k == "imul":
        a, b = t[1], t[2]
        if a[0] == "int":
            x = exact_int(S, iv, b)
            return x.scale(a[1]) if x is not None else None
        if b[0] == "int":
            x = exact_int(S, iv, a)
            return x.scale(b[1]) if x is not None else None
        return None
    if k == "ineg":
        x = exact_int(S, iv, t[1])
        r = iv.range(t[1])
        tr = INT_RANGES.get(t[2]) if len(t) > 2 else None
        if x is None or (tr is not None and r[0] <= tr[0]):
            return None
        return x.scale(-1)
    if k in ("iabs", "iuabs"):
        x = exact_int(S, iv, t[1])
        r = iv.range(t[1])
        if x is None:
            return None
        if r[0] >= 0:
            return x
        if r[1] <= 0:
            tr = INT_RANGES.get(t[2]) if len(t) > 2 else None
            if k == "iabs" and tr is not None and r[0] <= tr[0]:
                return None       # abs(MIN) overflows
            return x.scale(-1)
        return None
    if k in ("isatsub", "isatadd", "iwrapadd", "iwrapsub"):
        # exact when the mathematical result provably stays inside the type
        a, b = exact_int(S, iv, t[1]), exact_int(S, iv, t[2])
        if a is None or b is None:
            return None
        ra, rb = iv.range(t[1]), iv.range(t[2])
        add = k in ("isatadd", "iwrapadd")
        r = (ra[0] + rb[0], ra[1] + rb[1]) if add else (ra[0] - rb[1], ra[1] - rb[0])
        tr = INT_RANGES.get(t[3])
        if tr is None or not (tr[0] <= r[0] and r[1] <= tr[1]):
            return None
        return a.add(b, 1 if add else -1)
    if k in ("ite", "b"):
        return None
    if k in ("iwrapadd", "iwrapsub", "iwrapmul", "irem", "idiv", "ishl", "ishr", "ibitand", "ibitor", "ibitxor"):
        return None
    return Lin({t: 1}, 0)


def literal_constraints(S, iv, atom, pol):
    """Octagon-style constraint alternatives for a path-predicate literal:
    returns a list of alternatives, each a list of (Lin, '<=0') constraints; None if not linear."""
    if atom[0] == "icmp":
        op, a, b = atom[1], atom[2], atom[3]
        la, lb = exact_int(S, iv, a), exact_int(S, iv, b)
        if la is None or lb is None:
            return None
        d = la.add(lb, -1)          # a - b
        if op == "Lt":
            return [[d.add(Lin({}, 1))]] if pol else [[d.scale(-1)]]            # a-b+1<=0 | b-a<=0
        if op == "Le":
            return [[d]] if pol else [[d.scale(-1).add(Lin({}, 1))]]
        if op == "Eq":
            if pol:
                return [[d, d.scale(-1)]]
            return [[d.add(Lin({}, 1))], [d.scale(-1).add(Lin({}, 1))]]
        return None
    if atom[0] == "overflow":
        # overflow(op, a, b, ty): the mathematical result leaves the type's range
        op, a, b, ty = atom[1], atom[2], atom[3], atom[4]
        la, lb = exact_int(S, iv, a), exact_int(S, iv, b)
        tr = INT_RANGES.get(ty)
        if la is None or lb is None or tr is None or op not in ("Add", "Sub"):
            return None
        r = la.add(lb, 1 if op == "Add" else -1)
        below = r.add(Lin({}, -tr[0] + 1))            # r <= lo-1
        above = Lin({}, tr[1] + 1).add(r, -1)         # hi+1 <= r
        if pol:
            return [[below], [above]]
        return [[Lin({}, tr[0]).add(r, -1), r.add(Lin({}, -tr[1]))]]
    if atom[0] == "fits":
        x = exact_int(S, iv, atom[1])
        tr = INT_RANGES.get(atom[3])
        if x is None or tr is None:
            return None
        lo = Lin({}, tr[0]).add(x, -1)        # lo - x <= 0
        hi = x.add(Lin({}, -tr[1]))           # x - hi <= 0
        if pol:
            return [[lo, hi]]
        return [[x.add(Lin({}, -tr[0] + 1))], [Lin({}, tr[1] + 1).add(x, -1)]]
    return None


def pc_regions(S, pc, leaf_types=None, invariants=None, weaken=False):
    """Path predicate (engine BDD) -> list of conjunctions of linear constraints (Lin <= 0); None if
    some literal is not linear."""
    out = []
    cubes = S.eng.bdd.cubes(pc, limit=256)
    if cubes is None:
        return None
    for cube in cubes:
        iv = Intervals(S, leaf_types, invariants)
        node = 1
        for a, p in cube:
            v = S.eng.bdd.var(a)
            node = S.eng.bdd.AND(node, v if p else S.eng.bdd.NOT(v))
        iv.assume(node)
        alts = [[]]
        for a, p in cube:
            lc = literal_constraints(S, iv, a, p)
            if lc is None:
                if weaken:
                    # entailment use only: dropping a premise is sound (the region only grows)
                    continue
                return None
            alts = [x + y for x in alts for y in lc]
        out.extend(alts)
    return out


def to_oct(lins):
    """[(Lin <= 0)] -> [(dict var->coeff, bound)]"""
    return [(dict(l.c), -l.k) for l in lins]


def entails_range(S, pc, term, lo, hi, leaf_types=None, invariants=None):
    """Does the path predicate `pc` (with the variables' declared ranges / invariants as domain) force
    lo <= term <= hi?  Decided relationally in the octagon domain.  True / False / None (undecided)."""
    from .octagon import conj_empty
    regs = pc_regions(S, pc, leaf_types, invariants, weaken=True)
    if regs is None:
        return None
    for cube_regs in regs:
        iv = Intervals(S, leaf_types, invariants)
        iv.assume(pc)
        l = exact_int_loose(S, iv, term)
        if l is None:
            # same-width reinterpreting cast around an exact value (x as i64 with x provably small)
            t2 = term
            while t2[0] == "icast":
                t2 = t2[1]
            l2 = exact_int_loose(S, iv, t2) if t2 is not term else None
            if l2 is None:
                return None
            # the casts are value-preserving iff the inner value fits every intermediate type: ask for that first
            from .sym import INT_RANGES as _IR
            chain = []
            t3 = term
            while t3[0] == "icast":
                chain.append(t3[3])
                t3 = t3[1]
            need_lo = max(_IR.get(c, FULL)[0] for c in chain)
            need_hi = min(_IR.get(c, FULL)[1] for c in chain)
            if not (lo >= need_lo and hi <= need_hi):
                fits = entails_range(S, pc, t2, need_lo, need_hi, leaf_types, invariants)
                if not fits:
                    return None
            l = l2
        cons = to_oct(cube_regs)
        vars_ = set(l.c)
        for lin, _c in cons:
            vars_ |= set(lin)
        vars_ = list(vars_)
        dom = []
        iv0 = Intervals(S, leaf_types, invariants)
        for v in vars_:
            r = iv0.range(v)
            if r[1] < FULL[1]:
                dom.append(({v: 1}, r[1]))
            if r[0] > FULL[0]:
                dom.append(({v: -1}, -r[0]))
        above = (dict((v, -k) for v, k in l.c.items()), l.k - (hi + 1))     # term >= hi+1
        below = (dict(l.c), (lo - 1) - l.k)                                  # term <= lo-1
        for extra in (above, below):
            r = conj_empty(vars_, cons + dom + [extra])
            if r is None:
                return None
            if not r:
                return False
    return True


def exact_int_loose(S, iv, t):
    """Like exact_int but the outermost add/sub is taken mathematically (its own overflow is the
    question being asked)."""
    if t[0] in ("iadd", "isub") and len(t) > 3:
        a, b = exact_int(S, iv, t[1]), exact_int(S, iv, t[2])
        if a is None or b is None:
            return None
        return a.add(b, 1 if t[0] == "iadd" else -1)
    return exact_int(S, iv, t)
