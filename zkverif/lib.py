"""Shared helpers for rule modules: anchors, engine sessions, role binding, oracle term builders."""
from .sym import Engine, is_ref
from .alg import Alg
from .fmt import Fmt
from .facts import strip_refs, ty_str

ZC = "zkchannels_crypto"
ZA = "zkabacus_crypto"


# ------------------------------------------------------------------ anchors
def method(prog, adt, name, trait=None):
    r = prog.method(adt, name, trait)
    return r[0] if r else None


def methods(prog, adt, name, trait=None):
    return prog.method(adt, name, trait)


def trait_method_impls(prog, trait, name):
    """All bodies implementing trait method `name` (any self type)."""
    out = []
    for b in prog.bodies.values():
        d = b.desc
        if d.get("container") == "impl" and d.get("trait") == trait and d.get("name") == name:
            out.append(b)
    return out


def site_of(prog, body, bi=None):
    if bi is None:
        return body.loc()
    t = body.blocks[bi]["term"]
    return body.loc(t.get("ln"))


def callee_of(prog, term):
    did = term.get("resolved") or term.get("callee")
    return prog.defs.get(did, {}) if did else {}


def calls_in(prog, body, include_closures=True):
    """(body, block index, terminator, callee descriptor, original callee descriptor)."""
    bodies = [body]
    if include_closures:
        stack = [body.id]
        while stack:
            x = stack.pop()
            for cid in prog.closures_of.get(x, []):
                bodies.append(prog.bodies[cid])
                stack.append(cid)
    for b in bodies:
        for bi, t in b.calls():
            yield b, bi, t, callee_of(prog, t), prog.defs.get(t.get("callee"), {})


def aggregates_in(prog, body, include_closures=True):
    """(body, block, stmt index, rvalue) for every Aggregate of an ADT."""
    bodies = [body]
    if include_closures:
        stack = [body.id]
        while stack:
            x = stack.pop()
            for cid in prog.closures_of.get(x, []):
                bodies.append(prog.bodies[cid])
                stack.append(cid)
    for b in bodies:
        for bi, bb in enumerate(b.blocks):
            if bb["cleanup"]:
                continue
            for si, s in enumerate(bb["stmts"]):
                if s[0] == "assign" and s[2][0] == "agg" and s[2][1] == "adt":
                    yield b, bi, si, s


def root_body(prog, body):
    while body.kind == "Closure":
        pid = body.desc.get("closure_of")
        if pid not in prog.bodies:
            break
        body = prog.bodies[pid]
    return body


def who_constructs(prog, adt_path):
    """All ADT aggregate sites building `adt_path` anywhere in the program."""
    out = []
    for b in prog.bodies.values():
        for bi, bb in enumerate(b.blocks):
            if bb["cleanup"]:
                continue
            for s in bb["stmts"]:
                if s[0] == "assign" and s[2][0] == "agg" and s[2][1] == "adt" and s[2][2] == adt_path:
                    out.append((b, bi, s))
    # constructor functions used as values (`.map(Self)`)
    for b in prog.bodies.values():
        for bi, bb in enumerate(b.blocks):
            if bb["cleanup"]:
                continue
            ops = []
            for s in bb["stmts"]:
                if s[0] == "assign":
                    ops.extend(_ops_of_rv(s[2]))
            t = bb["term"]
            if t["k"] in ("call", "tailcall"):
                ops.extend(t["args"])
                cal = t.get("callee")
                d = prog.defs.get(cal, {})
                if d.get("kind", "").startswith("Ctor") and _ctor_adt(prog, d) == adt_path:
                    out.append((b, bi, ("ctor-call",)))
            for o in ops:
                if o[0] == "const" and "fn" in o[1]:
                    d = prog.defs.get(o[1]["fn"], {})
                    if d.get("kind", "").startswith("Ctor") and _ctor_adt(prog, d) == adt_path:
                        out.append((b, bi, ("ctor-value",)))
    return out


def _ctor_adt(prog, d):
    from .facts import strip_generics
    p = strip_generics(d.get("ctor_of", ""))
    if p in prog.adts:
        return p
    # enum variant constructor
    q = p.rsplit("::", 1)[0]
    return q if q in prog.adts else p


def _ops_of_rv(rv):
    k = rv[0]
    if k == "use":
        return [rv[1]]
    if k == "cast":
        return [rv[2]]
    if k == "binop":
        return [rv[2], rv[3]]
    if k == "unop":
        return [rv[2]]
    if k == "repeat":
        return [rv[1]]
    if k == "agg":
        return list(rv[-1])
    return []


def callers_of(prog, pred):
    """(body, block, term) for every call whose (resolved or declared) callee descriptor satisfies pred."""
    out = []
    for b in prog.bodies.values():
        for bi, t in b.calls():
            d = callee_of(prog, t)
            o = prog.defs.get(t.get("callee"), {})
            if pred(d) or (o is not d and pred(o)):
                out.append((b, bi, t))
    return out


def owners_of(prog, body, _seen=None, stop=None):
    """The API-level functions a site inside `body` belongs to: `body`'s root itself when it is externally reachable
    (pub, crate-visible method with no private-only role, trait method, derive-generated) or has no callers;
    otherwise - a private helper - the owners of every function that calls it (transitively).  A private helper is
    code of its callers: what it constructs or calls is constructed / called by them."""
    root = root_body(prog, body)
    if _seen is None:
        _seen = set()
    if root.id in _seen:
        return []
    _seen.add(root.id)
    if stop is not None and stop(root):
        return [root]           # a designated function: the walk ends here even if it is private
    private_helper = root.vis != "pub" and root.desc.get("trait") is None and not root.from_expansion
    if not private_helper:
        return [root]
    ups = [c for c in prog.bodies.values() for bi, tt in c.calls() if tt.get("resolved") == root.id or tt.get("callee") == root.id]
    if not ups:
        return [root]
    out = []
    for c in ups:
        for o in owners_of(prog, c, _seen, stop):
            if all(o.id != x.id for x in out):
                out.append(o)
    return out or [root]


def entry_points_reaching(prog, pred, is_entry):
    """Who can reach a callee satisfying `pred`?  Walks callers upwards through *private* helpers (functions that
    are not `pub` and not trait methods): returns (entries, offenders) where `entries` = {body id: body} of the
    functions for which is_entry(body) holds and `offenders` = [(body, call site body, term)] of reachable callers
    that are neither an entry point nor a private helper all of whose callers are accounted for."""
    entries, offenders = {}, []
    seen = set()
    work = [(b, b, t) for b, bi, t in callers_of(prog, pred)]
    while work:
        b, site_b, t = work.pop()
        root = root_body(prog, b)
        if is_entry(root):
            entries[root.id] = root
            continue
        private_helper = root.vis != "pub" and root.desc.get("trait") is None and not root.from_expansion
        if not private_helper:
            offenders.append((root, site_b, t))
            continue
        if root.id in seen:
            continue
        seen.add(root.id)
        ups = [(c, bi, tt) for c in prog.bodies.values() for bi, tt in c.calls() if tt.get("resolved") == root.id or tt.get("callee") == root.id]
        if not ups:
            offenders.append((root, site_b, t))     # dead private helper holding a sensitive call: report it
        for c, bi, tt in ups:
            work.append((c, c, tt))
    return entries, offenders


def is_method_of(d, adt, name):
    if d.get("name") != name or d.get("container") != "impl":
        return False
    st = d.get("self_ty")
    return bool(st) and strip_refs(st)[0] == "adt" and strip_refs(st)[1] == adt


# ------------------------------------------------------------------ sessions
class Session:
    """One engine + algebra instance (terms of different sessions must not be mixed)."""

    def __init__(self, prog):
        self.prog = prog
        self.eng = Engine(prog)
        self.alg = Alg(self.eng)
        self.fmt = Fmt(self.eng)
        self.fmt.alg = self.alg

    def eval(self, body, args=None, gargs=None, genv=None):
        ret, st, fr = self.eng.eval_fn(body, args=args, gargs=gargs, genv=genv)
        self.last_state = st
        return ret

    def value(self, v):
        """By-value view (look through references) in the last state."""
        return self.eng.arg_repr(self.last_state, v)

    def call(self, body, args, genv=None):
        """Evaluate `body` on explicit argument terms (by-reference params get `refv` wrappers)."""
        a2 = []
        for i, a in enumerate(args):
            t = body.locals[i + 1]
            if t[0] == "ref" and not is_ref(a):
                a = ("refv", a)
            a2.append(a)
        ret = self.eval(body, args=a2, genv=genv)
        return self.value(ret) if ret is not None else None

    def canon(self, t):
        return self.alg.canon(t)

    def show(self, t):
        return self.fmt(t)

    def same(self, a, b):
        return self.alg.canon(a) == self.alg.canon(b)


def arg(i):
    return ("arg", i)


def fld(base, i, name=None):
    return ("field", base, i, name)


# ------------------------------------------------------------------ oracle term builders
_uid = [10 ** 6]


def fresh_uid():
    _uid[0] += 1
    return _uid[0]


def ip(A, B, n):
    """<A, B> = sum_i A[i] * B[i]"""
    u = fresh_uid()
    return ("vsum", ("vmap", u, ("mul", ("elem", u, 0), ("elem", u, 1)), (("vals", A), ("vals", B)), n))


def r_commit(h, gs, m, bf, n):
    return ("add", ("mul", h, bf), ip(gs, m, n))


def vec_affine(c, m, cs, n):
    """element-wise c*m_i + cs_i"""
    u = fresh_uid()
    return ("vmap", u, ("add", ("mul", c, ("elem", u, 0)), ("elem", u, 1)), (("vals", m), ("vals", cs)), n)


def adt_fields(prog, adt):
    rec = prog.adts.get(adt)
    if not rec:
        return []
    return rec["variants"][0]["fields"]


def field_index(prog, adt, pred):
    """Indices of fields of `adt` whose type satisfies pred."""
    return [i for i, f in enumerate(adt_fields(prog, adt)) if pred(f["t"])]


def is_preserving_copy(prog, body, adt):
    """True when `body` (e.g. a derived Clone::clone) rebuilds `adt` field-by-field from its own
    argument of that type: an invariant-preserving copy, not a new construction."""
    if body.argc != 1:
        return False
    t = strip_refs(body.locals[1])
    if t[0] != "adt" or t[1] != adt:
        return False
    S = Session(prog)
    try:
        ret = S.eval(body)
    except Exception:
        return False
    if ret is None:
        return False
    c = S.canon(ret)
    if c[0] != "struct" or c[1] != adt:
        return False
    for i, f in enumerate(c[3]):
        if f != ("field", ("arg", 1), i):
            return False
    return True


# ------------------------------------------------------------------ type-directed leaf enumeration
LEAF_ADTS = {"bls12_381::Scalar", "bls12_381::G1Affine", "bls12_381::G2Affine", "bls12_381::G1Projective",
             "bls12_381::G2Projective", "bls12_381::scalar::Scalar", "bls12_381::g1::G1Affine",
             "bls12_381::g2::G2Affine", "bls12_381::g1::G1Projective", "bls12_381::g2::G2Projective"}


def is_leaf_ty(t):
    if t[0] == "prim":
        return True
    if t[0] == "param":
        return True      # a generic group element G
    if t[0] == "adt" and (t[1] in LEAF_ADTS or t[1].startswith("bls12_381::")):
        return True
    if t[0] == "array" and is_leaf_ty(t[1]) and t[1][0] == "prim":
        return True
    return False


def subst_params(t, env):
    if not env:
        return t
    k = t[0]
    if k == "param":
        return env.get(t[1], t)
    if k == "adt":
        return ("adt", t[1], tuple(subst_params(a, env) for a in t[2]))
    if k in ("ref", "ptr"):
        return (k, t[1], subst_params(t[2], env))
    if k == "array":
        n = t[2]
        if not isinstance(n, int) and n in env and env[n][0] == "const":
            n = env[n][1]
        return ("array", subst_params(t[1], env), n)
    if k == "tuple":
        return ("tuple", tuple(subst_params(a, env) for a in t[1]))
    if k == "const" and not isinstance(t[1], int) and t[1] in env:
        return env[t[1]]
    return t


def type_leaves(prog, ty, base, path=()):
    """Yield (term, leaf type, path of (adt, field index) steps, under_each) for every atom of a value
    of type `ty` rooted at term `base`.  Arrays of scalars are one vector leaf; arrays of aggregates
    are entered through the canonical element symbol ('E', array term)."""
    k = ty[0]
    if k == "adt" and ty[1].endswith("boxed::Box"):
        yield from type_leaves(prog, ty[2][0], base, path)
        return
    if is_leaf_ty(ty):
        yield base, ty, path
        return
    if k == "array":
        if is_leaf_ty(ty[1]) and ty[1][0] == "prim":
            yield base, ty, path
            return
        if is_leaf_ty(ty[1]):
            # vector of scalars / group elements: one atom per element, reported as a whole
            yield ("E", base), ty, path + (("each", ty[2]),)
            return
        yield from type_leaves(prog, ty[1], ("E", base), path + (("each", ty[2]),))
        return
    if k == "tuple":
        for i, t in enumerate(ty[1]):
            yield from type_leaves(prog, t, fld(base, i), path + (("tuple", i),))
        return
    if k == "adt":
        rec = prog.adts.get(ty[1])
        if rec is None:
            yield base, ty, path
            return
        env = {}
        for g, a in zip(rec["generics"], ty[2]):
            env[g] = a
        if len(rec["variants"]) != 1:
            yield base, ty, path
            return
        for i, f in enumerate(rec["variants"][0]["fields"]):
            ft = subst_params(f["t"], env)
            yield from type_leaves(prog, ft, fld(base, i), path + ((ty[1], i),))
        return
    yield base, ty, path


def project_path(S, value, path):
    """Follow a type_leaves path on an engine value."""
    v = value
    for step in path:
        if step[0] == "each":
            v = S.eng.index_value(v if v[0] != "box" else v[1], ("isym",))
        else:
            while v[0] == "box":
                v = v[1]
            v = S.eng.proj_field(v, step[1])
    return v


def contains_head(t, head, _memo=None):
    if _memo is None:
        _memo = set()
    if not isinstance(t, tuple) or not t:
        return False
    if id(t) in _memo:
        return False
    if t[0] == head:
        return True
    _memo.add(id(t))
    return any(contains_head(x, head, _memo) for x in t)
