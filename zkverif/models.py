"""Foreign-call model table for the value-reconstruction engine (one line of reason per entry).

A model maps argument terms to a result term (and updates cells behind `&mut` arguments).
Algebraic operators only *build* terms here; normal forms live in alg.py.
Dependency crates are not analysed: these entries are their documented contracts (trusted base).
"""
from .sym import UNDEF, UNIT, is_ref, contains_uid
from .facts import ty_str, strip_refs

MODELS = {}


def model(*names):
    def deco(f):
        for n in names:
            MODELS[n] = f
        return f
    return deco


def val(ctx, a):
    """Look through references: by-value view of an argument."""
    return ctx.eng.arg_repr(ctx.st, a)


def some(x):
    return ("struct", "std::option::Option", 1, (x,))


NONE = ("struct", "std::option::Option", 0, ())


def ok(x):
    return ("struct", "std::result::Result", 0, (x,))


def err(x):
    return ("struct", "std::result::Result", 1, (x,))


# ---------------------------------------------------------------- algebra (trait operators)
def _bin(op):
    def f(ctx, args):
        return (op, val(ctx, args[0]), val(ctx, args[1]))
    return f


MODELS["std::ops::Mul::mul"] = _bin("mul")
MODELS["std::ops::Add::add"] = _bin("add")
MODELS["std::ops::Sub::sub"] = _bin("sub")


@model("std::ops::Neg::neg")
def m_neg(ctx, args):
    return ("neg", val(ctx, args[0]))


def _assign(op):
    def f(ctx, args):
        old = val(ctx, args[0])
        ctx.eng.write_ref(ctx.st, args[0], (op, old, val(ctx, args[1])))
        return UNIT
    return f


MODELS["std::ops::AddAssign::add_assign"] = _assign("add")
MODELS["std::ops::MulAssign::mul_assign"] = _assign("mul")
MODELS["std::ops::SubAssign::sub_assign"] = _assign("sub")


@model("std::cmp::PartialEq::eq")
def m_eq(ctx, args):
    if ctx.desc.get("local") and ctx.did in ctx.eng.prog.bodies:
        return NotImplemented     # derived / hand-written PartialEq of a crate type: inline it
    a, b = val(ctx, args[0]), val(ctx, args[1])
    return ("b", ctx.eng.bdd.var(mk_eq(a, b)))


@model("std::cmp::PartialEq::ne")
def m_ne(ctx, args):
    if ctx.desc.get("local") and ctx.did in ctx.eng.prog.bodies:
        return NotImplemented
    # the provided method `ne` of a crate type = !eq: inline the type's own (derived / hand-written) eq
    eng = ctx.eng
    t0, t1 = ctx.arg_ty(0), ctx.arg_ty(1)
    if t0 is not None and t1 is not None:
        sel = eng.select_impl("std::cmp::PartialEq", "eq", (strip_refs(t0), strip_refs(t1)))
        if sel is not None:
            did, ga = sel
            r = eng.inline(ctx.st, ctx.fr, ctx.site, eng.prog.bodies[did], ga, [args[0], args[1]])
            if r is not None:
                return ("b", eng.bdd.NOT(eng.tobdd(r)))
    a, b = val(ctx, args[0]), val(ctx, args[1])
    return ("b", ctx.eng.bdd.NOT(ctx.eng.bdd.var(mk_eq(a, b))))


def mk_eq(a, b):
    # orientation-free equality atom
    if repr(a) > repr(b):
        a, b = b, a
    return ("eqv", a, b)


# ---------------------------------------------------------------- conversions
IDENT_PAIRS = {
    ("G1Affine", "G1Projective"), ("G1Projective", "G1Affine"),
    ("G2Affine", "G2Projective"), ("G2Projective", "G2Affine"),
    ("Choice", "bool"), ("CtOption", "Option"),
}


def _short(t):
    t = strip_refs(t)
    if t[0] == "adt":
        return t[1].split("::")[-1]
    if t[0] == "prim":
        return t[1]
    return t[0]


def convert(ctx, x, src, dst):
    s, d = _short(src), _short(dst)
    if src == dst or strip_refs(src) == strip_refs(dst):
        return x
    if (s, d) in IDENT_PAIRS:
        return x
    if d == "Scalar" and s in ("u64", "u32", "u8", "u16"):
        return ("from_int", x)
    from .sym import INT_RANGES
    if src[0] == "prim" and dst[0] == "prim" and s in INT_RANGES and d in INT_RANGES \
            and INT_RANGES[d][0] <= INT_RANGES[s][0] and INT_RANGES[s][1] <= INT_RANGES[d][1]:
        # lossless integer widening (`i128::from(x)`, `u64::from(b)`): same mathematical value
        return x if x[0] == "int" else ("icast", x, s, d)
    if d == "ArrayVec" and s == "array":
        return ("arrayvec", x)
    if s == "GenericArray" and d == "array":
        return x                 # `digest.into()`: the same bytes as a plain array
    if s == "param" or d == "param":
        # generic element conversions inside generic code (Into<G>): affine/projective views
        return x
    return None


@model("std::convert::From::from")
def m_from(ctx, args):
    if ctx.desc.get("local") and ctx.did in ctx.eng.prog.bodies:
        return NotImplemented
    ga = ctx.gargs
    # resolved impl: gargs of the impl; use argument / destination types instead
    src = ctx.arg_ty(0)
    dst = ctx.dest_ty()
    if src is not None and dst is not None:
        r = convert(ctx, val(ctx, args[0]) if _short(src) != "array" else args[0], src, dst)
        if r is not None:
            return r
    return ("conv", val(ctx, args[0]), ty_str(dst) if dst else "?")


@model("std::convert::Into::into")
def m_into(ctx, args):
    src = ctx.arg_ty(0)
    dst = ctx.dest_ty()
    if src is None or dst is None:
        return ("conv", val(ctx, args[0]), "?")
    # Into<U> for T forwards to U::from(T): crate-local From impls are inlined
    eng = ctx.eng
    if not (src[0] == "param" or dst[0] == "param"):
        r = eng.select_impl("std::convert::From", "from", (dst, src))
        if r is not None:
            body = eng.prog.bodies[r[0]]
            return eng.inline(ctx.st, ctx.fr, ctx.site, body, r[1], args)
    r = convert(ctx, val(ctx, args[0]), src, dst)
    if r is not None:
        return r
    return ("conv", val(ctx, args[0]), ty_str(dst))


@model("std::convert::TryFrom::try_from", "std::convert::TryInto::try_into")
def m_try_from(ctx, args):
    eng = ctx.eng
    src = ctx.arg_ty(0)
    dst = ctx.dest_ty()
    if ctx.oq.endswith("try_from") and ctx.desc.get("local") and ctx.did in eng.prog.bodies:
        return NotImplemented
    tgt = None
    if dst is not None and dst[0] == "adt" and dst[1].endswith("Result"):
        tgt = dst[2][0]
    if tgt is not None and src is not None and not (src[0] == "param" or tgt[0] == "param"):
        r = eng.select_impl("std::convert::TryFrom", "try_from", (tgt, src))
        if r is not None:
            body = eng.prog.bodies[r[0]]
            return eng.inline(ctx.st, ctx.fr, ctx.site, body, r[1], args)
    x = val(ctx, args[0])
    s, d = _short(src) if src else "?", _short(tgt) if tgt else "?"
    if d == "Box" and s == "Box" and tgt[2] and tgt[2][0][0] == "array":
        # Box<[T]> -> Box<[T; N]>: succeeds iff the length is N; the contents are unchanged
        n = tgt[2][0][2]
        inner = x[1] if x[0] == "box" else x
        have = vec_len(eng, inner)

        def nm(z):
            return z[1] if isinstance(z, tuple) and z and z[0] in ("cparam", "const") else z
        if have is not None and str(nm(have)) == str(nm(n)):
            return ok(("box", inner))
        return ("ite", eng.bdd.var(("len_is", inner, n)), ok(("box", inner)), err(x))
    if d == "array" and s in ("slice", "array", "Vec", "GenericArray"):
        n = tgt[2]
        if s == "slice" and x[0] == "slice_of" and isinstance(n, int) and x[3][0] == "int" and x[2][0] == "int" and x[3][1] - x[2][1] == n:
            return ok(x)
        return ("ite", eng.bdd.var(("len_is", x, n)), ok(("as_array", x, n)), err(("try_from_err", x)))
    if s in ("u64", "i64", "u32", "usize", "i128", "u128") and d in ("i64", "u64", "u32", "usize", "u8", "i32"):
        from .sym import INT_RANGES
        (slo, shi), (dlo, dhi) = INT_RANGES[s], INT_RANGES[d]
        if slo >= dlo and shi <= dhi:
            return ok(("icast", x, s, d))
        if slo < dlo and shi <= dhi:
            # only the lower bound can fail: fits <=> !(x < dlo)   (same order atom as an explicit `x < 0` test)
            c = eng.bdd.NOT(eng.bdd.var(("icmp", "Lt", x, ("int", dlo), s)))
        elif slo >= dlo and shi > dhi:
            # only the upper bound can fail: fits <=> !(dhi < x)
            c = eng.bdd.NOT(eng.bdd.var(("icmp", "Lt", ("int", dhi), x, s)))
        else:
            c = eng.bdd.var(("fits", x, s, d))
        return ("ite", c, ok(("icast", x, s, d)), err(("try_from_int_err",)))
    return ("call", ctx.oq, (x,))


@model("std::clone::Clone::clone")
def m_clone(ctx, args):
    return val(ctx, args[0]) if is_ref(args[0]) else args[0]


@model("std::convert::AsRef::as_ref", "std::borrow::Borrow::borrow")
def m_as_ref(ctx, args):
    a = args[0]
    v = val(ctx, a)
    if v[0] == "box":
        return ("refv", v[1])
    return a if is_ref(a) else ("refv", a)


@model("std::ops::Deref::deref")
def m_deref(ctx, args):
    if ctx.desc.get("local") and ctx.did in ctx.eng.prog.bodies:
        return NotImplemented
    v = val(ctx, args[0])
    if v[0] == "box":
        return ("refv", v[1])
    return ("refv", ("deref", v))


@model("std::boxed::Box::new")
def m_box_new(ctx, args):
    return ("box", args[0])


@model("std::string::ToString::to_string")
def m_to_string(ctx, args):
    return ("string", val(ctx, args[0]))


# ---------------------------------------------------------------- curve / field primitives
@model("group::Group::is_identity", "group::prime::PrimeCurveAffine::is_identity", "group::prime::PrimeCurve::is_identity",
       "group::cofactor::CofactorCurveAffine::is_identity", "bls12_381::G1Affine::is_identity", "bls12_381::G2Affine::is_identity",
       "bls12_381::G1Projective::is_identity", "bls12_381::G2Projective::is_identity")
def m_is_identity(ctx, args):
    return ("b", ctx.eng.bdd.var(("is_identity", val(ctx, args[0]))))


@model("ff::Field::is_zero")
def m_is_zero(ctx, args):
    return ("b", ctx.eng.bdd.var(("is_zero", val(ctx, args[0]))))


@model("subtle::from")
def m_subtle_from(ctx, args):
    return args[0]


@model("ff::Field::random", "group::Group::random")
def m_random(ctx, args):
    kind = "scalar" if ctx.oq.startswith("ff") else "element"
    cp, binders = ctx.fresh_ctx()
    return ("rand", kind, cp, binders)


@model("rand::RngCore::fill_bytes")
def m_fill_bytes(ctx, args):
    cp, binders = ctx.fresh_ctx()
    ctx.eng.write_ref(ctx.st, args[1], ("rand", "bytes", cp, binders))
    return UNIT


@model("bls12_381::Scalar::zero", "ff::Field::zero")
def m_zero(ctx, args):
    return ("zero",)


@model("bls12_381::Scalar::one", "ff::Field::one")
def m_one(ctx, args):
    return ("one",)


@model("group::Group::identity", "bls12_381::G1Projective::identity", "bls12_381::G2Projective::identity",
       "bls12_381::G1Affine::identity", "bls12_381::G2Affine::identity")
def m_identity(ctx, args):
    return ("gzero",)


@model("bls12_381::Gt::identity")
def m_gt_identity(ctx, args):
    return ("gt_one",)


@model("group::Curve::to_affine")
def m_to_affine(ctx, args):
    return val(ctx, args[0])


ENC_LEN = {"Scalar": 32, "G1Affine": 48, "G2Affine": 96, "G1Projective": 48, "G2Projective": 96}


@model("group::GroupEncoding::to_bytes", "bls12_381::G1Affine::to_compressed", "bls12_381::G2Affine::to_compressed",
       "bls12_381::Scalar::to_bytes")
def m_to_bytes(ctx, args):
    t = ("bytes", val(ctx, args[0]))
    at = ctx.arg_ty(0)
    n = ENC_LEN.get(_short(at)) if at is not None else None
    if n is not None:
        ctx.eng.lens[t] = n         # canonical encoding length (bls12_381 contract)
    return t


@model("bls12_381::G1Affine::to_uncompressed", "bls12_381::G2Affine::to_uncompressed")
def m_to_uncompressed(ctx, args):
    return ("bytes_uncompressed", val(ctx, args[0]))


@model("bls12_381::G1Affine::from_compressed", "bls12_381::G2Affine::from_compressed", "bls12_381::Scalar::from_bytes")
def m_from_bytes(ctx, args):
    x = val(ctx, args[0])
    c = ctx.eng.bdd.var(("canonical", ctx.oq.split("::")[-2], x))
    return ("ite", c, some(("decode", ctx.oq.split("::")[-2], x)), NONE)


@model("bls12_381::Scalar::from_raw")
def m_from_raw(ctx, args):
    return ("from_raw", val(ctx, args[0]))


@model("core::num::from_le_bytes")
def m_from_le(ctx, args):
    x = val(ctx, args[0])
    while x[0] in ("copied", "refv", "deref"):
        x = x[1]                 # a copied byte window is the window
    return ("le_int", x)


@model("bls12_381::multi_miller_loop")
def m_mml(ctx, args):
    v = val(ctx, args[0])
    pairs = []
    if v[0] == "array":
        for p in v[1]:
            if p[0] == "tuple":
                pairs.append((val(ctx, p[1][0]), val(ctx, p[1][1])))
            else:
                pairs.append(p)
        return ("mml", tuple(pairs))
    return ("mml?", v)


@model("bls12_381::MillerLoopResult::final_exponentiation")
def m_fexp(ctx, args):
    return ("fexp", val(ctx, args[0]))


@model("bls12_381::pairing")
def m_pairing(ctx, args):
    return ("fexp", ("mml", ((val(ctx, args[0]), val(ctx, args[1])),)))


# ---------------------------------------------------------------- hashing
@model("sha3::Digest::new")
def m_hash_new(ctx, args):
    return ("hash0",)


@model("std::default::Default::default")
def m_default(ctx, args):
    # `Sha3_256::default()` (what a derived `Default` of a hasher-holding struct calls) is the empty hasher, like
    # `Digest::new()`; integer / bool defaults are zero / false; anything else stays an opaque call
    try:
        t = ctx.dest_ty()
    except Exception:
        t = None
    ts = ty_str(t) if t else ""
    if t is not None and t[0] == "adt" and ("Sha3" in ts or "CoreWrapper" in ts or "sha3::" in str(t)):
        return ("hash0",)
    if t is not None and t[0] == "prim":
        if t[1] == "bool":
            return ("b", 0)
        if t[1][0] in "iu" and t[1][1:].replace("size", "").isdigit() or t[1] in ("usize", "isize"):
            return ("int", 0)
    return NotImplemented        # crate-local impls are inlined, anything else stays an opaque call


def absorb(h, data):
    """Absorbing a piecewise buffer is absorbing its pieces in order (a hash sees one byte stream)."""
    d = data
    while d[0] in ("copied", "refv"):
        d = d[1]
    if d[0] == "concat":
        for p in d[1]:
            h = absorb(h, p)
        return h
    return ("absorb", h, data)


@model("sha3::Digest::update")
def m_hash_update(ctx, args):
    old = val(ctx, args[0])
    ctx.eng.write_ref(ctx.st, args[0], absorb(old, val(ctx, args[1])))
    return UNIT


@model("sha3::Digest::chain")
def m_hash_chain(ctx, args):
    return absorb(val(ctx, args[0]), val(ctx, args[1]))


@model("sha3::Digest::finalize")
def m_hash_finalize(ctx, args):
    return ("digest", val(ctx, args[0]))


@model("sha3::Digest::digest")
def m_hash_digest(ctx, args):
    return ("digest", absorb(("hash0",), val(ctx, args[0])))


# ---------------------------------------------------------------- integers
def _self_int_ty(ctx):
    # the integer type an inherent `core::num` method is called on: the callee's own impl type (reliable also when the
    # method is passed as a function value, e.g. `.and_then(i64::checked_neg)`), else the type of the first operand
    st = ctx.desc.get("self_ty") if isinstance(ctx.desc, dict) else None
    if st and st[0] == "prim":
        return st[1]
    t = ctx.arg_ty(0)
    return ty_str(t) if t else "?"


@model("core::num::is_negative")
def m_is_negative(ctx, args):
    x = args[0]
    if x[0] == "int":
        return ("b", 1 if x[1] < 0 else 0)
    return ("b", ctx.eng.bdd.var(("icmp", "Lt", x, ("int", 0), _self_int_ty(ctx))))


@model("core::num::abs")
def m_abs(ctx, args):
    x = args[0]
    ts = _self_int_ty(ctx)
    ctx.eng.obligations.append({
        "kind": "AbsOverflow", "pc": ctx.st.pc, "cond": None, "expected": None, "ops": [x], "ty": ts,
        "site": ctx.site, "ln": ctx.term["ln"], "callpath": ctx.fr.callpath, "exp": ctx.term["exp"]})
    return ("iabs", x, ts)


@model("core::num::unsigned_abs")
def m_uabs(ctx, args):
    return ("iuabs", args[0], _self_int_ty(ctx))


def _wrapping(op):
    def f(ctx, args):
        return ("iwrap" + op, args[0], args[1], _self_int_ty(ctx))
    return f


for _op in ("add", "sub", "mul"):
    MODELS["core::num::wrapping_" + _op] = _wrapping(_op)


@model("core::num::wrapping_neg")
def m_wrapping_neg(ctx, args):
    # signed: -x except at MIN, which maps to itself (no panic); unsigned: 0 - x modulo 2^w
    ts = _self_int_ty(ctx)
    x = args[0]
    if ts.startswith("i") and ts[1:].isdigit():
        mn = -(1 << (int(ts[1:]) - 1))
        if x[0] == "int":
            return ("int", mn if x[1] == mn else -x[1])
        at_min = ctx.eng.bdd.NOT(ctx.eng.bdd.var(("icmp", "Lt", ("int", mn), x, ts)))     # x <= MIN
        return ctx.eng.mk_ite(at_min, ("int", mn), ("ineg", x, ts))
    return ("iwrapneg", x, ts)


def _checked(op):
    def f(ctx, args):
        ts = _self_int_ty(ctx)
        c = ctx.eng.bdd.var(("overflow", op.capitalize(), args[0], args[1], ts))
        return ("ite", c, NONE, some(("i" + op, args[0], args[1], ts)))
    return f


for _op in ("add", "sub", "mul"):
    MODELS["core::num::checked_" + _op] = _checked(_op)


def _saturating(op):
    def f(ctx, args):
        return ("isat" + op, args[0], args[1], _self_int_ty(ctx))
    return f


for _op in ("add", "sub"):
    MODELS["core::num::saturating_" + _op] = _saturating(_op)


@model("std::result::Result::and_then")
def m_res_and_then(ctx, args):
    eng = ctx.eng
    v = args[0]
    c = variant_cond(eng, v, 0)
    r = guarded(ctx, c, lambda: call_closure(ctx, args[1], [payload(eng, v, 0)])) if c != 0 else UNDEF
    return eng.mk_ite(c, r, err(payload(eng, v, 1)))


@model("std::option::Option::and_then")
def m_opt_and_then(ctx, args):
    eng = ctx.eng
    v = args[0]
    c = variant_cond(eng, v, 1)
    r = guarded(ctx, c, lambda: call_closure(ctx, args[1], [payload(eng, v, 1)])) if c != 0 else UNDEF
    return eng.mk_ite(c, r, NONE)


@model("core::num::is_positive")
def m_is_positive(ctx, args):
    x = args[0]
    if x[0] == "int":
        return ("b", 1 if x[1] > 0 else 0)
    return ("b", ctx.eng.bdd.var(("icmp", "Lt", ("int", 0), x, _self_int_ty(ctx))))


@model("std::cmp::Ord::min", "core::cmp::min", "std::cmp::min")
def m_min(ctx, args):
    a, b = args[0], args[1]
    if a[0] == "int" and b[0] == "int":
        return ("int", min(a[1], b[1]))
    t = ctx.arg_ty(0)
    return ("imin", a, b, ty_str(t) if t else "?")


@model("std::cmp::Ord::max", "core::cmp::max", "std::cmp::max")
def m_max(ctx, args):
    a, b = args[0], args[1]
    if a[0] == "int" and b[0] == "int":
        return ("int", max(a[1], b[1]))
    t = ctx.arg_ty(0)
    return ("imax", a, b, ty_str(t) if t else "?")


# ---------------------------------------------------------------- Option / Result / bool helpers
def split_opt(ctx, v, kind):
    """View an Option/Result term as (cond_is_first_variant1?, payload_if_some/ok, payload_else)."""
    eng = ctx.eng
    if v[0] == "struct":
        return v
    return None


def variant_cond(eng, v, variant):
    """BDD: discriminant(v) == variant."""
    return eng.eq_int(eng.discr(v), variant)


def payload(eng, v, variant):
    return eng.proj_field(("down", v, variant), 0)


def call_closure(ctx, f, cargs):
    """Invoke a closure / fn item value on argument terms."""
    eng = ctx.eng
    fv = f
    while is_ref(fv):
        fv = eng.deref_value(ctx.st, fv)
    if fv[0] == "closure":
        body = eng.prog.bodies.get(fv[1])
        if body is None:
            return ("call_closure", fv, tuple(cargs))
        genv = dict(fv[3])
        # closure bodies take (self, args...) with the arguments untupled
        self_arg = f if is_ref(f) else ("refv", fv)
        kind = body.locals[1]
        if kind[0] != "ref":
            self_arg = fv
        cells = [next(eng.ncell) for _ in body.locals]
        from .sym import Frame
        nf = Frame(body, cells, genv, ctx.fr.callpath + (ctx.site,), ctx.fr.depth + 1)
        ctx.st.store[cells[1]] = self_arg
        for i, a in enumerate(cargs):
            if i + 2 < len(cells):
                ctx.st.store[cells[i + 2]] = a
        eng.inlined.add(body.id)
        return eng.run_body(ctx.st, nf)
    if fv[0] == "fnitem":
        did = fv[1]
        body = eng.prog.bodies.get(did)
        d = eng.prog.defs.get(did, {})
        q = d.get("qpath", did)
        if d.get("kind", "").startswith("Ctor"):
            # tuple-struct / variant constructor used as a function (e.g. `.map(Self)`)
            parent = d.get("ctor_of", q)
            from .facts import strip_generics
            adt = strip_generics(parent)
            last = adt.rsplit("::", 1)[-1]
            if adt not in eng.prog.adts and last in ("Some", "Ok", "Err") and len(cargs) == 1 and ("option" in q or "result" in q or "prelude" in adt):
                return {"Some": some, "Ok": ok, "Err": err}[last](cargs[0])
            rec = eng.prog.adts.get(adt)
            variant = 0
            if rec is None:
                # enum variant ctor: parent is the variant, grandparent the enum
                for p, r in eng.prog.adts.items():
                    for vi, vr in enumerate(r["variants"]):
                        if p + "::" + vr["n"] == adt:
                            rec, variant, adt = r, vi, p
            return ("struct", adt, variant, tuple(cargs))
        m = MODELS.get(q)
        if m is not None:
            from .sym import CallCtx
            sub = CallCtx(eng, ctx.st, ctx.fr, ctx.term, ctx.site, did, fv[2], d, q)
            r = m(sub, list(cargs))
            if r is not NotImplemented:
                return r
        if body is not None:
            return eng.inline(ctx.st, ctx.fr, ctx.site, body, fv[2], list(cargs))
        if q == "std::convert::Into::into" or q.endswith("::into"):
            return cargs[0]
        return ("call", q, tuple(eng.arg_repr(ctx.st, a) for a in cargs))
    return ("call_closure", fv, tuple(cargs))


@model("core::bool::then")
def m_then(ctx, args):
    eng = ctx.eng
    c = eng.tobdd(args[0])
    st = ctx.st
    saved = st.pc
    st.pc = eng.bdd.AND(saved, c)
    r = call_closure(ctx, args[1], [])
    st.pc = saved
    return eng.mk_ite(c, some(r), NONE)


@model("core::bool::then_some")
def m_then_some(ctx, args):
    return ctx.eng.mk_ite(ctx.eng.tobdd(args[0]), some(args[1]), NONE)


def guarded(ctx, cond, thunk):
    st = ctx.st
    saved = st.pc
    st.pc = ctx.eng.bdd.AND(saved, cond)
    try:
        return thunk()
    finally:
        st.pc = saved


@model("std::option::Option::map", "subtle::CtOption::map")
def m_opt_map(ctx, args):
    eng = ctx.eng
    v = args[0]
    c = variant_cond(eng, v, 1)
    if c == 0:
        return NONE
    r = guarded(ctx, c, lambda: call_closure(ctx, args[1], [payload(eng, v, 1)]))
    return eng.mk_ite(c, some(r), NONE)


@model("std::option::Option::zip")
def m_opt_zip(ctx, args):
    eng = ctx.eng
    a, b = args[0], args[1]
    c = eng.bdd.AND(variant_cond(eng, a, 1), variant_cond(eng, b, 1))
    if c == 0:
        return NONE
    return eng.mk_ite(c, some(("tuple", (payload(eng, a, 1), payload(eng, b, 1)))), NONE)


@model("std::option::Option::filter")
def m_opt_filter(ctx, args):
    eng = ctx.eng
    v = args[0]
    c = variant_cond(eng, v, 1)
    if c == 0:
        return NONE
    keep = guarded(ctx, c, lambda: call_closure(ctx, args[1], [("refv", payload(eng, v, 1))]))
    c2 = eng.bdd.AND(c, eng.tobdd(keep))
    return eng.mk_ite(c2, some(payload(eng, v, 1)), NONE)


@model("std::array::map")
def m_array_map(ctx, args):
    """`[T; N]::map(f)`: element-wise, in index order."""
    eng = ctx.eng
    v = val(ctx, args[0])
    while v[0] in ("copied", "box"):
        v = v[1]
    def per_iter(elems):
        puid = next(eng.nuid)
        out = []
        for kk, e in enumerate(elems):
            eng.binders.append(puid)
            eng.unroll[puid] = (kk, len(elems), None)
            try:
                out.append(call_closure(ctx, args[1], [e]))
            finally:
                eng.binders.pop()
                eng.unroll.pop(puid, None)
        return ("array", tuple(out))
    if v[0] == "array":
        return per_iter(list(v[1]))
    n = vec_len(eng, v)
    t = ctx.arg_ty(0)
    if n is None and t is not None and strip_refs(t)[0] == "array":
        n = strip_refs(t)[2]
        n = n[1] if isinstance(n, tuple) and n and n[0] == "int" else n
    if isinstance(n, int) and n <= 8:
        return per_iter([eng.index_value(v, ("int", i)) for i in range(n)])
    if n is not None and vec_len(eng, v) is None:
        eng.lens[v] = n
    return realise(ctx, ("map", args[1], next(eng.nuid), ("vals", v)))


@model("std::result::Result::map")
def m_res_map(ctx, args):
    eng = ctx.eng
    v = args[0]
    c = variant_cond(eng, v, 0)
    r = guarded(ctx, c, lambda: call_closure(ctx, args[1], [payload(eng, v, 0)])) if c != 0 else UNDEF
    return eng.mk_ite(c, ok(r), err(payload(eng, v, 1)))


@model("std::result::Result::map_err")
def m_res_map_err(ctx, args):
    eng = ctx.eng
    v = args[0]
    c = variant_cond(eng, v, 0)
    nc = eng.bdd.NOT(c)
    r = guarded(ctx, nc, lambda: call_closure(ctx, args[1], [payload(eng, v, 1)])) if nc != 0 else UNDEF
    return eng.mk_ite(c, ok(payload(eng, v, 0)), err(r))


@model("std::option::Option::ok_or_else")
def m_ok_or_else(ctx, args):
    eng = ctx.eng
    v = args[0]
    c = variant_cond(eng, v, 1)
    nc = eng.bdd.NOT(c)
    r = guarded(ctx, nc, lambda: call_closure(ctx, args[1], [])) if nc != 0 else UNDEF
    return eng.mk_ite(c, ok(payload(eng, v, 1)), err(r))


@model("std::option::Option::ok_or")
def m_ok_or(ctx, args):
    eng = ctx.eng
    v = args[0]
    c = variant_cond(eng, v, 1)
    return eng.mk_ite(c, ok(payload(eng, v, 1)), err(args[1]))


@model("std::option::Option::unwrap_or_else")
def m_unwrap_or_else(ctx, args):
    eng = ctx.eng
    v = args[0]
    c = variant_cond(eng, v, 1)
    nc = eng.bdd.NOT(c)
    r = guarded(ctx, nc, lambda: call_closure(ctx, args[1], [])) if nc != 0 else UNDEF
    return eng.mk_ite(c, payload(eng, v, 1), r)


@model("std::option::Option::unwrap_or")
def m_unwrap_or(ctx, args):
    eng = ctx.eng
    v = args[0]
    c = variant_cond(eng, v, 1)
    return eng.mk_ite(c, payload(eng, v, 1), args[1])


def _unwrap(variant):
    def f(ctx, args):
        eng = ctx.eng
        v = args[0]
        c = variant_cond(eng, v, variant)
        if c != 1:
            eng.obligations.append({
                "kind": "Unwrap", "pc": ctx.st.pc, "cond": ("b", c), "expected": True, "ops": [v],
                "callee": ctx.oq, "site": ctx.site, "ln": ctx.term["ln"], "callpath": ctx.fr.callpath,
                "exp": ctx.term["exp"]})
        return payload(eng, v, variant)
    return f


MODELS["std::result::Result::unwrap"] = _unwrap(0)
MODELS["std::result::Result::expect"] = _unwrap(0)
MODELS["std::option::Option::unwrap"] = _unwrap(1)
MODELS["std::option::Option::expect"] = _unwrap(1)


@model("std::ops::BitOr::bitor", "std::ops::BitAnd::bitand", "std::ops::Not::not", "std::ops::BitXor::bitxor")
def m_bool_ops(ctx, args):
    """Bit operators on `subtle::Choice` / bool wrappers (Choice is identified with the bool it converts to)."""
    if ctx.desc.get("local") and ctx.did in ctx.eng.prog.bodies:
        return NotImplemented
    eng = ctx.eng
    t0 = ctx.arg_ty(0)
    if t0 is None or _short(t0) not in ("Choice", "bool"):
        return ("call", ctx.oq, tuple(val(ctx, a) for a in args))
    xs = [eng.tobdd(val(ctx, a)) for a in args]
    nm = ctx.oq.rsplit("::", 1)[-1]
    if nm == "not":
        return ("b", eng.bdd.NOT(xs[0]))
    if nm == "bitor":
        return ("b", eng.bdd.OR(xs[0], xs[1]))
    if nm == "bitand":
        return ("b", eng.bdd.AND(xs[0], xs[1]))
    return ("b", eng.bdd.ite(xs[0], eng.bdd.NOT(xs[1]), xs[1]))


@model("std::option::Option::map_or")
def m_opt_map_or(ctx, args):
    eng = ctx.eng
    v = args[0]
    c = variant_cond(eng, v, 1)
    if c == 0:
        return args[1]
    r = guarded(ctx, c, lambda: call_closure(ctx, args[2], [payload(eng, v, 1)]))
    return eng.mk_ite(c, r, args[1])


@model("std::option::Option::map_or_else")
def m_opt_map_or_else(ctx, args):
    eng = ctx.eng
    v = args[0]
    c = variant_cond(eng, v, 1)
    some_r = guarded(ctx, c, lambda: call_closure(ctx, args[2], [payload(eng, v, 1)])) if c != 0 else None
    none_r = guarded(ctx, eng.bdd.NOT(c), lambda: call_closure(ctx, args[1], [])) if c != 1 else None
    if c == 1:
        return some_r
    if c == 0:
        return none_r
    return eng.mk_ite(c, some_r, none_r)


@model("std::iter::Iterator::position")
def m_position(ctx, args):
    """`it.position(p)`: Some(index of the first match) iff any element matches."""
    eng = ctx.eng
    r = m_any_all(_Renamed(ctx, "std::iter::Iterator::any"), args)
    if r[0] != "b":
        return ("call", ctx.oq, tuple(args))
    return eng.mk_ite(r[1], some(("first_match", r[1])), NONE)


class _Renamed:
    """A call context presented under another callee name (to share a model)."""

    def __init__(self, ctx, oq):
        self.__dict__["_ctx"] = ctx
        self.__dict__["oq"] = oq

    def __getattr__(self, k):
        return getattr(self._ctx, k)


@model("std::option::Option::is_some")
def m_is_some(ctx, args):
    return ("b", variant_cond(ctx.eng, val(ctx, args[0]), 1))


@model("std::option::Option::is_none")
def m_is_none(ctx, args):
    return ("b", variant_cond(ctx.eng, val(ctx, args[0]), 0))


@model("std::result::Result::is_ok")
def m_is_ok(ctx, args):
    return ("b", variant_cond(ctx.eng, val(ctx, args[0]), 0))


@model("std::result::Result::is_err")
def m_is_err(ctx, args):
    return ("b", variant_cond(ctx.eng, val(ctx, args[0]), 1))


@model("std::result::Result::ok")
def m_res_ok(ctx, args):
    eng = ctx.eng
    v = args[0]
    c = variant_cond(eng, v, 0)
    return eng.mk_ite(c, some(payload(eng, v, 0)), NONE)


CF = "std::ops::ControlFlow"


@model("std::ops::Try::branch")
def m_branch(ctx, args):
    eng = ctx.eng
    v = args[0]
    t = ctx.arg_ty(0)
    if t is not None and t[0] == "adt" and t[1].endswith("Option"):
        c = variant_cond(eng, v, 1)
        return eng.mk_ite(c, ("struct", CF, 0, (payload(eng, v, 1),)), ("struct", CF, 1, (NONE,)))
    c = variant_cond(eng, v, 0)
    return eng.mk_ite(c, ("struct", CF, 0, (payload(eng, v, 0),)),
                      ("struct", CF, 1, (err(payload(eng, v, 1)),)))


@model("std::ops::FromResidual::from_residual")
def m_from_residual(ctx, args):
    eng = ctx.eng
    v = args[0]
    if v[0] == "struct" and v[1].endswith("Option"):
        return NONE
    e = payload(eng, v, 1)
    # error conversion through From: identity unless a crate-local From impl exists
    dst = ctx.dest_ty()
    return err(("conv_err", e)) if False else err(e)


# ---------------------------------------------------------------- vectors / iterators
def elem_of(shape, uid, start=0):
    """Element term of an iterator shape under binder uid; returns (term, next leaf index)."""
    k = shape[0]
    if k == "zip":
        a, n = elem_of(shape[1], uid, start)
        b, n = elem_of(shape[2], uid, n)
        return ("tuple", (a, b)), n
    if k == "enumerate":
        a, n = elem_of(shape[1], uid, start)
        return ("tuple", (("idx", uid), a)), n
    if k in ("take", "rev", "revall"):
        return elem_of(shape[1], uid, start)
    if k == "map":
        # body refers to its own binder; instantiate it with the outer elements
        inner, n = elem_of(shape[3], uid, start)
        return ("mapped", shape[1], shape[2], inner), n
    if k == "repeat_with":
        return ("repeat_elem", shape[1], shape[2]), start
    if k == "adapter" and shape[1] == "filter" and is_stream(shape[2]) and len(shape[3]) == 1:
        # rejection sampling: every yielded element is a fresh draw for which the predicate holds
        inner, n = elem_of(shape[2], uid, start)
        return ("filtered_elem", inner, shape[3][0]), n
    if k == "adapter" and shape[1] == "skip_while" and is_stream(shape[2]):
        # only the first yielded element is constrained; as a vector source no element is guaranteed anything
        return elem_of(shape[2], uid, start)
    if k == "adapter":
        return ("adapted", shape[1], uid, start), start + 1
    if k == "refs":
        return ("refv", ("elem", uid, start)), start + 1
    if k == "mutrefs":
        return ("ref", shape[1], shape[2] + (("vidx", ("idx", uid)),)), start + 1
    if k == "range":
        if shape[1] == ("int", 0):
            return ("idx", uid), start + 1
        return ("iadd", shape[1], ("idx", uid), "usize"), start + 1
    return ("elem", uid, start), start + 1


def unroll_limit(shape):
    """Loops over explicit element lists are executed element by element up to 64 elements (they *are* straight-line
    code); counted loops over ranges / chunkings only when short."""
    k = shape[0]
    if k in ("zip",):
        return max(unroll_limit(shape[1]), unroll_limit(shape[2]))
    if k in ("enumerate", "take"):
        return unroll_limit(shape[1])
    if k == "map":
        return unroll_limit(shape[3])
    if k in ("refs", "vals"):
        inner = shape[1]
        while inner[0] in ("box", "copied", "refv"):
            inner = inner[1]
        return 64 if inner[0] == "array" else 8
    if k == "array":
        return 64
    return 8


def _unroll_info(shape):
    """(every leaf can be indexed at a constant position, some leaf is a literal collection)."""
    k = shape[0]
    if k == "zip":
        a1, l1 = _unroll_info(shape[1])
        a2, l2 = _unroll_info(shape[2])
        return a1 and a2, l1 or l2
    if k in ("enumerate", "take", "rev"):
        return _unroll_info(shape[1])
    if k == "map":
        return _unroll_info(shape[3])
    if k in ("refs", "vals"):
        inner = shape[1]
        while inner[0] in ("box", "copied", "refv"):
            inner = inner[1]
        return True, inner[0] in ("array", "repeat")
    if k in ("mutrefs", "chunks", "array"):
        return True, True
    if k == "range":
        lit = shape[1][0] == "int" and shape[2][0] == "int"
        return lit, lit
    if k in ("adapter", "repeat_with"):
        return False, False
    return False, False


def unrollable(shape):
    """Loops are executed iteration by iteration only when the trip count comes from a *literal* collection (array
    literal, in-place fill of a local array, constant range, fixed-size chunking) and every other zipped leaf can be
    indexed at a constant position; loops over purely symbolic collections keep their schematic summary even when N
    is small."""
    allx, lit = _unroll_info(shape)
    return allx and lit


def is_stream(shape):
    """An unbounded stream of independent draws: repeat_with(f), possibly filtered / mapped."""
    k = shape[0]
    if k == "repeat_with":
        return True
    if k == "adapter" and shape[1] in ("filter", "skip_while"):
        return is_stream(shape[2])
    if k == "map":
        return is_stream(shape[3])
    return False


def leaves_of(shape):
    k = shape[0]
    if k == "adapter" and shape[1] in ("filter", "skip_while") and is_stream(shape[2]):
        return leaves_of(shape[2])
    if k == "zip":
        return leaves_of(shape[1]) + leaves_of(shape[2])
    if k in ("enumerate",):
        return leaves_of(shape[1])
    if k == "take":
        return leaves_of(shape[1])
    if k == "rev":
        # the element at iteration i is the inner element at position n-1-i: a *different* leaf
        return [("revd", l) for l in leaves_of(shape[1])]
    if k == "revall":
        # a loop that walks its whole (possibly zipped / mapped) source backwards: every leaf is visited in the same
        # reversed order, so the summary is expressed over the leaves in their own order and flagged as reversed
        return leaves_of(shape[1])
    if k == "map":
        return leaves_of(shape[3])
    if k == "repeat_with":
        return []
    return [shape]


def shape_len(eng, shape):
    """Length of an iterator shape: int, parameter name, or None when unknown."""
    k = shape[0]
    if k == "zip":
        a, b = shape_len(eng, shape[1]), shape_len(eng, shape[2])
        if a == "inf":
            return b
        if b == "inf":
            return a
        if a == b:
            return a
        if isinstance(a, int) and isinstance(b, int):
            return min(a, b)
        return None
    if k in ("rev", "revall"):
        return shape_len(eng, shape[1])
    if k in ("enumerate", "map"):
        return shape_len(eng, shape[1] if k == "enumerate" else shape[3])
    if k == "take":
        inner = shape_len(eng, shape[1])
        n = shape[2]
        if inner == "inf":
            return n
        if inner == n:
            return n
        if isinstance(inner, int) and isinstance(n, int):
            return min(inner, n)
        return None
    if k == "repeat_with":
        return "inf"
    if k == "chunks":
        return shape[3]
    if k == "adapter" and shape[1] in ("filter", "skip_while") and is_stream(shape[2]):
        return "inf"
    if k == "range":
        if shape[2] == ("inf",):
            return "inf"
        if shape[1][0] == "int" and shape[2][0] == "int":
            return shape[2][1] - shape[1][1]
        if shape[1] == ("int", 0) and shape[2][0] == "cparam":
            return shape[2][1]           # 0..N for a const generic N
        return None
    if k in ("refs", "mutrefs", "vals"):
        return vec_len(eng, shape)
    return vec_len(eng, shape)


def vec_len(eng, v):
    if v[0] in ("refs", "vals"):
        return vec_len(eng, v[1])
    if v[0] == "mutrefs":
        return v[3]
    if v[0] == "array":
        return len(v[1])
    if v[0] == "repeat":
        return v[2]
    if v[0] == "box":
        return vec_len(eng, v[1])
    if v[0] == "vmap":
        return v[4] if len(v) > 4 else None
    if v[0] == "arrayvec":
        return vec_len(eng, v[1])
    if v[0] == "slice_of" and v[2][0] == "int":
        if v[3][0] == "int":
            return v[3][1] - v[2][1]
        if v[3] == ("end",):
            whole = vec_len(eng, v[1])
            if isinstance(whole, int):
                return whole - v[2][1]
    n = eng.lens.get(v)
    return n


def instantiate_elem(eng, ctx, e, uid_map=None):
    """Resolve `mapped` / `repeat_elem` wrappers by invoking closures on the element terms."""
    k = e[0]
    if k == "tuple":
        return ("tuple", tuple(instantiate_elem(eng, ctx, x) for x in e[1]))
    if k == "mapped":
        inner = instantiate_elem(eng, ctx, e[3])
        return call_closure(ctx, e[1], [inner])
    if k == "repeat_elem":
        return call_closure(ctx, e[1], [])
    if k == "filtered_elem":
        v = instantiate_elem(eng, ctx, e[1])
        keep = call_closure(ctx, e[2], [("refv", v)])
        eng.assumed.append(eng.tobdd(keep))
        return v
    return e


def array_like(ctx, a):
    """(vector term, is_ref_elements) for an argument that is an array / slice / box / ref thereof."""
    eng = ctx.eng
    v = a
    through_ref = False
    mutref = None
    while is_ref(v):
        if v[0] == "ref":
            mutref = v
        through_ref = True
        v = eng.deref_value(ctx.st, v)
    while v[0] == "box":
        v = v[1]
    return v, through_ref, mutref


@model("core::slice::iter")
def m_slice_iter(ctx, args):
    v, _, _ = array_like(ctx, args[0])
    return ("iter", ("refs", v))


@model("core::slice::iter_mut")
def m_slice_iter_mut(ctx, args):
    v, _, mr = array_like(ctx, args[0])
    if mr is not None:
        return ("iter", ("mutrefs", mr[1], mr[2], vec_len(ctx.eng, v)))
    return ("iter", ("refs", v))


@model("std::iter::IntoIterator::into_iter")
def m_into_iter(ctx, args):
    eng = ctx.eng
    a = args[0]
    if a[0] == "iter":
        return a
    t = ctx.arg_ty(0)
    v, through_ref, mr = array_like(ctx, a)
    if v[0] == "iter":
        return v
    if v[0] == "arrayvec":
        v = v[1]
    if v[0] == "range":
        return ("iter", v)
    if t is not None and t[0] == "ref":
        inner = strip_refs(t)
        if inner[0] == "array":
            eng.lens.setdefault(v, inner[2])
        if t[1] and mr is not None:
            return ("iter", ("mutrefs", mr[1], mr[2], vec_len(eng, v)))
        return ("iter", ("refs", v))
    if t is not None and t[0] == "array":
        eng.lens.setdefault(v, t[2])
    if t is not None and t[0] == "adt" and t[1].endswith("Range"):
        lo = eng.proj_field(v, 0, "start")
        hi = eng.proj_field(v, 1, "end")
        return ("iter", ("range", lo, hi))
    return ("iter", ("vals", v))


def as_iter(ctx, a, i):
    """Coerce an argument that is itself an Iterator (e.g. a Range value) into an ('iter', shape)."""
    if a[0] == "iter":
        return a
    if is_ref(a):
        cur = ctx.eng.deref_value(ctx.st, a)
        if cur is not None and cur[0] == "iter" and is_stream(cur[1]):
            return cur          # streams carry no position: borrowing one yields the same unbounded stream
    if a[0] == "struct" and a[1].endswith("ops::Range") and len(a[3]) == 2:
        return ("iter", ("range", a[3][0], a[3][1]))
    if a[0] == "struct" and a[1].endswith("ops::RangeFrom") and len(a[3]) == 1:
        return ("iter", ("range", a[3][0], ("inf",)))
    t = ctx.arg_ty(i)
    if t is not None and t[0] == "adt" and t[1].endswith("ops::Range"):
        return ("iter", ("range", ctx.eng.proj_field(a, 0, "start"), ctx.eng.proj_field(a, 1, "end")))
    return a


@model("std::iter::Iterator::zip")
def m_zip(ctx, args):
    a, b = as_iter(ctx, args[0], 0), as_iter(ctx, args[1], 1)
    if b[0] != "iter":
        # zip accepts any IntoIterator
        b = m_into_iter_value(ctx, b, ctx.arg_ty(1))
    return ("iter", ("zip", a[1], b[1])) if a[0] == "iter" and b[0] == "iter" else ("call", ctx.oq, (a, b))


@model("std::iter::zip")
def m_zip_fn(ctx, args):
    """`std::iter::zip(a, b)`: both arguments are IntoIterator."""
    a, b = as_iter(ctx, args[0], 0), as_iter(ctx, args[1], 1)
    if a[0] != "iter":
        a = m_into_iter_value(ctx, a, ctx.arg_ty(0))
    if b[0] != "iter":
        b = m_into_iter_value(ctx, b, ctx.arg_ty(1))
    return ("iter", ("zip", a[1], b[1])) if a[0] == "iter" and b[0] == "iter" else ("call", ctx.oq, (a, b))


@model("std::array::from_fn")
def m_array_from_fn(ctx, args):
    """`array::from_fn(f)`: [f(0), f(1), .., f(N-1)], calls made in index order."""
    eng = ctx.eng
    dst = ctx.dest_ty()
    n = dst[2] if dst is not None and dst[0] == "array" else None
    if isinstance(n, tuple) and n and n[0] in ("cparam", "const"):
        n = n[1]
    if isinstance(n, int) and n <= 8:
        puid = next(eng.nuid)
        out = []
        for kk in range(n):
            eng.binders.append(puid)
            eng.unroll[puid] = (kk, n, None)
            try:
                out.append(call_closure(ctx, args[0], [("int", kk)]))
            finally:
                eng.binders.pop()
                eng.unroll.pop(puid, None)
        return ("array", tuple(out))
    if n is None:
        return ("call", ctx.oq, tuple(args))
    hi = ("int", n) if isinstance(n, int) else ("cparam", n)
    return realise(ctx, ("map", args[0], next(eng.nuid), ("range", ("int", 0), hi)))


@model("std::array::each_ref", "std::array::each_mut")
def m_each_ref(ctx, args):
    """`xs.each_ref()`: the array of references to the elements (references are transparent here)."""
    v, _, _ = array_like(ctx, args[0])
    t = ctx.arg_ty(0)
    if t is not None and strip_refs(t)[0] == "array" and vec_len(ctx.eng, v) is None:
        ctx.eng.lens[v] = strip_refs(t)[2]
    return v


def m_into_iter_value(ctx, a, t):
    v, through_ref, mr = array_like(ctx, a)
    if v[0] == "iter":
        return v
    if t is not None and t[0] == "ref":
        inner = strip_refs(t)
        if inner[0] == "array":
            ctx.eng.lens.setdefault(v, inner[2])
        return ("iter", ("refs", v))
    return ("iter", ("vals", v))


@model("std::iter::Iterator::enumerate")
def m_enumerate(ctx, args):
    a = as_iter(ctx, args[0], 0)
    return ("iter", ("enumerate", a[1])) if a[0] == "iter" else ("call", ctx.oq, (a,))


def _deref_shape(shape):
    k = shape[0]
    if k == "refs":
        return ("vals", shape[1])
    if k in ("take", "rev", "revall"):
        return (k, _deref_shape(shape[1])) + tuple(shape[2:])
    return shape        # references are transparent as values (canon strips refv / deref / copied)


@model("std::iter::Iterator::copied", "std::iter::Iterator::cloned")
def m_iter_copied(ctx, args):
    a = as_iter(ctx, args[0], 0)
    return ("iter", _deref_shape(a[1])) if a[0] == "iter" else ("call", ctx.oq, (a,))


@model("std::iter::Iterator::take")
def m_take(ctx, args):
    a = as_iter(ctx, args[0], 0)
    n = args[1]
    nn = n[1] if n[0] == "int" else (n[1] if n[0] == "cparam" else n)
    return ("iter", ("take", a[1], nn)) if a[0] == "iter" else ("call", ctx.oq, (a, n))


def closure_loop(ctx, shape, body_fn, early_fn=None):
    """Summarise `for e in <shape> { body_fn(e) }` where the body is Python-driven (a closure call): same record as an
    iterator-driven MIR loop (LoopInfo with init / step of every cell the body writes).  Literal collections are
    executed iteration by iteration.  `early_fn(result)` (optional) gives the BDD condition under which the iteration
    stops early; returns (uid or None, last body result)."""
    eng, st = ctx.eng, ctx.st
    if shape[0] == "rev":
        shape = ("revall", shape[1])
    n = shape_len(eng, shape)
    if isinstance(n, int) and n <= unroll_limit(shape) and unrollable(shape) and early_fn is None:
        puid = next(eng.nuid)
        r = None
        for kk in range(n):
            e, _ = elem_of(shape, 0)
            sub = {("idx", 0): ("int", kk)}
            for j, lf in enumerate(leaves_of(shape)):
                sub[("elem", 0, j)] = eng.src_at(lf, ("int", kk))
            eng.binders.append(puid)
            eng.unroll[puid] = (kk, n, shape)
            try:
                r = body_fn(instantiate_elem(eng, ctx, eng.subst(e, sub)))
            finally:
                eng.binders.pop()
                eng.unroll.pop(puid, None)
        return None, r
    from .sym import LoopInfo, UNDEF
    uid = next(eng.nuid)
    info = LoopInfo()
    info.uid, info.kind, info.src, info.body, info.header = uid, "iter", shape, ctx.fr.body.id, -1
    info.site = (ctx.fr.body.id, ctx.site, ctx.fr.callpath)
    info.iter_cell, info.early, info.normal = None, [], []
    eng.loops[uid] = info
    pre = dict(st.store)
    info.init_store = pre
    nob, npan = len(eng.obligations), len(eng.panics)
    M = set()
    r = None
    for _round in range(6):
        st.store = dict(pre)
        for c in M:
            st.store[c] = ("lv", uid, c)
        entry = dict(st.store)
        del eng.obligations[nob:]
        del eng.panics[npan:]
        eng.binders.append(uid)
        try:
            e, _ = elem_of(shape, uid)
            r = body_fn(instantiate_elem(eng, ctx, e))
        finally:
            eng.binders.pop()
        newM = {c for c in pre if st.store.get(c, UNDEF) != entry.get(c, UNDEF)}
        if newM <= M:
            break
        M |= newM
    info.cells = sorted(M)
    info.init = {c: pre.get(c, UNDEF) for c in M}
    info.step = {c: st.store.get(c, UNDEF) for c in M}
    info.back_pc = 1
    if early_fn is not None:
        info.early = [(early_fn(r), "early")]
    out = dict(pre)
    leaves = tuple(leaves_of(shape))
    for c in M:
        closed = None
        if early_fn is None:
            closed = eng.closed_push_loop(uid, c, info, M, n, leaves) or eng.closed_sum_loop(uid, c, info, M, n, leaves)
        out[c] = closed if closed is not None else ("loopout", uid, c)
    st.store = out
    return uid, r


def _iter_arg(ctx, a):
    eng = ctx.eng
    if is_ref(a):
        d = eng.deref_value(ctx.st, a)
        a = d if d is not None else a
    return as_iter(ctx, a, 0)


@model("std::iter::Iterator::for_each")
def m_for_each(ctx, args):
    """`it.for_each(f)` == `for e in it { f(e) }`."""
    a = _iter_arg(ctx, args[0])
    if a[0] != "iter" or is_stream(a[1]):
        return ("call", ctx.oq, tuple(args))
    closure_loop(ctx, a[1], lambda e: call_closure(ctx, args[1], [e]))
    return UNIT


@model("std::iter::Iterator::fold")
def m_fold(ctx, args):
    """`it.fold(init, f)` == `let mut acc = init; for e in it { acc = f(acc, e) }; acc`.  A tuple accumulator is kept as
    one loop-carried cell per component so that the recurrences (sum / weighted sum) are recognised component-wise."""
    eng, st = ctx.eng, ctx.st
    a = _iter_arg(ctx, args[0])
    if a[0] != "iter" or is_stream(a[1]):
        return ("call", ctx.oq, tuple(args))
    init = args[1]
    if init[0] == "tuple":
        cells = [next(eng.ncell) for _ in init[1]]
        for c, v in zip(cells, init[1]):
            st.store[c] = v

        def body(e):
            acc = ("tuple", tuple(st.store[c] for c in cells))
            r = call_closure(ctx, args[2], [acc, e])
            for i, c in enumerate(cells):
                st.store[c] = eng.proj_field(r, i)
            return r
        closure_loop(ctx, a[1], body)
        return ("tuple", tuple(st.store[c] for c in cells))
    cell = next(eng.ncell)
    st.store[cell] = init

    def body1(e):
        r = call_closure(ctx, args[2], [st.store[cell], e])
        st.store[cell] = r
        return r
    closure_loop(ctx, a[1], body1)
    return st.store[cell]


@model("std::iter::Iterator::try_for_each")
def m_try_for_each(ctx, args):
    """`it.try_for_each(f)`: stops at the first Err / None; Ok(()) after a full pass."""
    eng, st = ctx.eng, ctx.st
    a = _iter_arg(ctx, args[0])
    if a[0] != "iter" or is_stream(a[1]):
        return ("call", ctx.oq, tuple(args))
    dst = ctx.dest_ty()
    is_opt = dst is not None and dst[0] == "adt" and dst[1].endswith("Option")
    fail_variant = 0 if is_opt else 1
    uid, r = closure_loop(ctx, a[1], lambda e: call_closure(ctx, args[1], [e]),
                          early_fn=lambda res: variant_cond(eng, res, fail_variant))
    if uid is None or r is None:
        return ("call", ctx.oq, tuple(args))
    cond = eng.loops[uid].early[0][0]
    atom = eng.bdd.var(("anyiter", uid, ("b", cond)))
    info = eng.loops[uid]
    sub_some = {("lv", uid, c): ("some_iter", uid, c) for c in info.cells}
    if is_opt:
        return eng.mk_ite(atom, NONE, some(UNIT))
    return eng.mk_ite(atom, err(eng.subst(payload(eng, r, 1), sub_some)), ok(UNIT))


@model("std::iter::Iterator::any", "std::iter::Iterator::all")
def m_any_all(ctx, args):
    """`it.any(p)` over a finite collection == the early-exit loop `for e in it { if p(e) { return true } } false`;
    `it.all(p)` == !any(!p).  Built as the same `anyiter` atom an explicit loop produces."""
    eng = ctx.eng
    a = args[0]
    if is_ref(a):
        a = eng.deref_value(ctx.st, a)       # `any` / `all` take `&mut self` and run the iterator to the end
    a = as_iter(ctx, a, 0) if a is not None else args[0]
    if a[0] != "iter" or is_stream(a[1]):
        return ("call", ctx.oq, tuple(args))
    shape = a[1]
    n = shape_len(eng, shape)
    is_all = ctx.oq.endswith("::all")
    if isinstance(n, int) and n <= unroll_limit(shape) and unrollable(shape):
        # literal collection: plain disjunction / conjunction
        acc = 0
        puid = next(eng.nuid)
        for kk in range(n):
            e, _ = elem_of(shape, 0)
            sub = {("idx", 0): ("int", kk)}
            for j, lf in enumerate(leaves_of(shape)):
                sub[("elem", 0, j)] = eng.src_at(lf, ("int", kk))
            eng.binders.append(puid)
            eng.unroll[puid] = (kk, n, shape)
            try:
                v = instantiate_elem(eng, ctx, eng.subst(e, sub))
                c = eng.tobdd(call_closure(ctx, args[1], [("refv", v) if getattr(ctx, "wrap_ref", False) else v]))
            finally:
                eng.binders.pop()
                eng.unroll.pop(puid, None)
            if is_all:
                c = eng.bdd.NOT(c)
            acc = eng.bdd.OR(acc, c)
        return ("b", eng.bdd.NOT(acc) if is_all else acc)
    from .sym import LoopInfo
    uid = next(eng.nuid)
    info = LoopInfo()
    info.uid, info.kind, info.src, info.body, info.header = uid, "iter", shape, ctx.fr.body.id, -1
    info.site = (ctx.fr.body.id, ctx.site, ctx.fr.callpath)
    info.init_store, info.iter_cell, info.early, info.normal = ctx.st.store, None, [], []
    eng.loops[uid] = info
    e, _ = elem_of(shape, uid)
    eng.binders.append(uid)
    try:
        v = instantiate_elem(eng, ctx, e)
        c = eng.tobdd(call_closure(ctx, args[1], [("refv", v) if getattr(ctx, "wrap_ref", False) else v]))
    finally:
        eng.binders.pop()
    if is_all:
        c = eng.bdd.NOT(c)
    info.early = [(c, "any")]
    atom = eng.bdd.var(("anyiter", uid, ("b", c)))
    return ("b", eng.bdd.NOT(atom) if is_all else atom)


@model("std::vec::Vec::into_boxed_slice", "std::vec::Vec::into_boxed_slice")
def m_into_boxed_slice(ctx, args):
    v = val(ctx, args[0])
    if v[0] == "collected":
        return ("box", v[1])
    return ("box", v)


@model("std::slice::from_ref", "core::slice::from_ref", "std::array::from_ref")
def m_slice_from_ref(ctx, args):
    """`slice::from_ref(&x)`: the one-element slice [x]."""
    return ("refv", ("array", (val(ctx, args[0]),)))


@model("core::slice::chunks_exact", "core::slice::chunks")
def m_chunks(ctx, args):
    v, _, _ = array_like(ctx, args[0])
    while v[0] in ("deref", "copied", "refv"):
        v = v[1]
    n = args[1]
    total = vec_len(ctx.eng, v)
    if total is None:
        from .sym import seq_len
        total = seq_len(v, ctx.eng.lens)
    t = ctx.arg_ty(0)
    if total is None and t is not None and strip_refs(t)[0] == "array":
        total = strip_refs(t)[2]
    if n[0] == "int" and isinstance(total, int) and n[1] > 0 and total % n[1] == 0:
        return ("iter", ("chunks", v, n[1], total // n[1]))
    return ("call", ctx.oq, tuple(args))


@model("std::iter::Iterator::find_map", "std::iter::Iterator::find")
def m_find_stream(ctx, args):
    """`stream.find_map(f)` / `stream.find(p)` on an unbounded stream of independent draws = rejection sampling:
    the result is Some(value of the first accepted draw), which is a fresh draw for which f is Some / p holds."""
    eng = ctx.eng
    a = _iter_arg(ctx, args[0])
    if a[0] == "iter" and not is_stream(a[1]) and ctx.oq.endswith("::find"):
        # finite collection: Some(first match) iff any element matches
        rc = _Renamed(ctx, "std::iter::Iterator::any")
        rc.__dict__["wrap_ref"] = True          # `find` hands the predicate a reference to the item
        r = m_any_all(rc, [("iter", a[1]), args[1]])
        if r[0] == "b":
            return eng.mk_ite(r[1], some(("first_match", r[1])), NONE)
        return ("call", ctx.oq, tuple(args))
    if a[0] != "iter" or not is_stream(a[1]) or (a[1][0] == "adapter" and a[1][1] == "skip_while"):
        return ("call", ctx.oq, tuple(args))
    e, _ = elem_of(a[1], 0)
    v = instantiate_elem(eng, ctx, e)
    if ctx.oq.endswith("find_map"):
        r = call_closure(ctx, args[1], [v])
        eng.assumed.append(variant_cond(eng, r, 1))
        return some(payload(eng, r, 1))
    keep = call_closure(ctx, args[1], [("refv", v)])
    eng.assumed.append(eng.tobdd(keep))
    return some(v)


@model("std::iter::Iterator::by_ref")
def m_by_ref(ctx, args):
    return args[0]


@model("std::iter::Iterator::map")
def m_map(ctx, args):
    a = as_iter(ctx, args[0], 0)
    if a[0] != "iter":
        return ("call", ctx.oq, (a, args[1]))
    return ("iter", ("map", args[1], next(ctx.eng.nuid), a[1]))


@model("std::iter::repeat_with")
def m_repeat_with(ctx, args):
    return ("iter", ("repeat_with", args[0], next(ctx.eng.nuid)))


@model("std::iter::Iterator::rev", "std::iter::Iterator::skip", "std::iter::Iterator::step_by",
       "std::iter::Iterator::filter", "std::iter::Iterator::skip_while", "std::iter::Iterator::take_while",
       "std::iter::Iterator::chain", "std::iter::Iterator::cycle")
def m_iter_adapter(ctx, args):
    a = args[0]
    name = ctx.oq.split("::")[-1]
    if name == "rev" and a[0] == "iter" and not is_stream(a[1]):
        inner = a[1]
        if inner[0] == "rev":
            return ("iter", inner[1])           # rev().rev()
        return ("iter", ("rev", inner))
    if name == "skip" and a[0] == "iter" and a[1][0] in ("refs", "vals") and len(args) > 1 and args[1][0] == "int" and args[1][1] >= 0:
        # `xs.iter().skip(k)` visits what `xs[k..].iter()` visits
        if args[1][1] == 0:
            return a
        return ("iter", (a[1][0], ("slice_of", a[1][1], ("int", args[1][1]), ("end",))))
    if a[0] == "iter":
        return ("iter", ("adapter", name, a[1], tuple(args[1:])))
    return ("call", ctx.oq, tuple(args))


def realise(ctx, shape):
    """Turn an iterator shape into a vector term ('vmap', uid, body, leaves, len)."""
    eng = ctx.eng
    if shape[0] in ("vals",):
        return shape[1]
    uid = next(eng.nuid)
    e, _ = elem_of(shape, uid)
    eng.binders.append(uid)
    try:
        body = instantiate_elem(eng, ctx, e)
    finally:
        eng.binders.pop()
    leaves = tuple(leaves_of(shape))
    n = shape_len(eng, shape)
    eng.__dict__.setdefault("vmaps", {})[uid] = leaves
    # identity map over by-value leaf: the leaf itself
    if body == ("elem", uid, 0) and len(leaves) == 1 and leaves[0][0] == "vals":
        return leaves[0][1]
    if body == ("elem", uid, 0) and len(leaves) == 1 and leaves[0][0] not in ("refs", "mutrefs", "range"):
        return leaves[0]
    return ("vmap", uid, body, leaves, n)


@model("std::iter::Iterator::collect")
def m_collect(ctx, args):
    a = as_iter(ctx, args[0], 0)
    dst = ctx.dest_ty()
    if a[0] != "iter":
        if dst is not None and "ArrayVec" in ty_str(dst):
            _collect_full(ctx, a, None)
        return ("call", ctx.oq, (a,))
    vec = realise(ctx, a[1])
    if dst is not None and dst[0] == "adt" and dst[1].endswith("ArrayVec"):
        cap = dst[2][1][1] if len(dst[2]) > 1 and dst[2][1][0] == "const" else None
        _collect_full(ctx, vec, cap)
        return ("arrayvec", vec, cap)
    if dst is not None and "ArrayVec" in ty_str(dst):
        # collect::<Result<ArrayVec<..>, E>>() / Option<ArrayVec<..>>: the inner FromIterator is ArrayVec's, which is
        # documented to panic on the (CAP+1)-th item
        _collect_full(ctx, vec, None)
    return ("collected", vec, ty_str(dst) if dst else "?")


def _collect_full(ctx, vec, cap):
    """`ArrayVec::from_iter` / `extend` panic when the source yields more than CAP items: an obligation unless the
    source length is statically the capacity (the `[T; N]::iter().map(f).collect::<ArrayVec<_, N>>()` idiom)."""
    n = vec_len(ctx.eng, vec)
    if n is not None and cap is not None and (n == cap or (isinstance(n, int) and isinstance(cap, int) and n <= cap)):
        return
    ctx.eng.obligations.append({
        "kind": "CollectFull", "pc": ctx.st.pc, "cond": None, "expected": None, "ops": [vec, cap], "what": ctx.oq,
        "site": ctx.site, "ln": ctx.term["ln"], "callpath": ctx.fr.callpath, "exp": ctx.term["exp"]})


@model("std::iter::Iterator::sum", "std::iter::Sum::sum")
def m_sum(ctx, args):
    a = as_iter(ctx, args[0], 0)
    if a[0] != "iter":
        return ("call", ctx.oq, (a,))
    return ("vsum", realise(ctx, a[1]))


@model("arrayvec::ArrayVec::into_inner")
def m_into_inner(ctx, args):
    eng = ctx.eng
    v = args[0]
    if v[0] == "arrayvec":
        vec = v[1]
        cap = v[2] if len(v) > 2 else None
        n = vec_len(eng, vec)
        if n is not None and cap is not None and n == cap:
            return ok(vec)
        c = eng.bdd.var(("len_is", vec, cap))
        return ("ite", c, ok(vec), err(v))
    return ("call", ctx.oq, (v,))


@model("arrayvec::ArrayVec::new")
def m_arrayvec_new(ctx, args):
    dst = ctx.dest_ty()
    cap = None
    if dst is not None and dst[0] == "adt" and dst[1].endswith("ArrayVec") and len(dst[2]) > 1 and dst[2][1][0] == "const":
        cap = dst[2][1][1]
    return ("arrayvec", ("array", ()), cap)


def _slice_obligation(ctx, v, lo, hi):
    """`&v[lo..hi]` panics unless lo <= hi <= len(v)."""
    eng = ctx.eng
    n = vec_len(eng, v)
    t = ctx.arg_ty(0)
    if n is None and t is not None:
        inner = strip_refs(t)
        if inner[0] == "array":
            n = inner[2]
    if n is None:
        from .sym import seq_len
        core = v
        while core[0] in ("deref", "copied", "refv"):
            core = core[1]
        n = seq_len(core, eng.lens)
    if lo[0] == "int" and (hi is None or hi[0] == "int") and isinstance(n, int) and 0 <= lo[1] <= (n if hi is None else hi[1]) <= n:
        return
    eng.obligations.append({
        "kind": "SliceRange", "pc": ctx.st.pc, "cond": None, "expected": None, "ops": [v, lo, hi], "len": n,
        "site": ctx.site, "ln": ctx.term["ln"], "callpath": ctx.fr.callpath, "exp": ctx.term["exp"]})


@model("std::ops::Index::index", "std::ops::IndexMut::index_mut")
def m_index(ctx, args):
    eng = ctx.eng
    base = args[0]
    idx = args[1]
    v, through_ref, mr = array_like(ctx, base)
    while v[0] == "deref" and v[1][0] in ("digest", "array", "repeat", "concat", "copied", "bytes"):
        v = v[1]            # `digest[a..b]`: a GenericArray derefs to its own bytes
    mutable = ctx.oq.endswith("index_mut") and mr is not None
    if idx[0] == "struct" and idx[1].endswith("Range"):
        lo, hi = idx[3][0], idx[3][1]
        _slice_obligation(ctx, v, lo, hi)
        if mutable and lo[0] == "int" and hi[0] == "int":
            return ("ref", mr[1], mr[2] + (("srange", lo[1], hi[1]),))
        return ("refv", ("slice_of", v, lo, hi))
    if idx[0] == "struct" and idx[1].endswith("RangeTo"):
        _slice_obligation(ctx, v, ("int", 0), idx[3][0])
        if mutable and idx[3][0][0] == "int":
            return ("ref", mr[1], mr[2] + (("srange", 0, idx[3][0][1]),))
        return ("refv", ("slice_of", v, ("int", 0), idx[3][0]))
    if idx[0] == "struct" and idx[1].endswith("RangeFull"):
        t0 = ctx.arg_ty(0)
        if t0 is not None and strip_refs(t0)[0] == "array" and vec_len(eng, v) is None:
            eng.lens[v] = strip_refs(t0)[2]
        if mutable:
            return ("ref", mr[1], mr[2])
        return ("refv", v)
    if idx[0] == "struct" and idx[1].endswith("RangeFrom"):
        _slice_obligation(ctx, v, idx[3][0], None)
        if mutable and idx[3][0][0] == "int":
            return ("ref", mr[1], mr[2] + (("srange", idx[3][0][1], None),))
        return ("refv", ("slice_of", v, idx[3][0], ("end",)))
    n = vec_len(eng, v)
    t = ctx.arg_ty(0)
    if n is None and t is not None:
        inner = strip_refs(t)
        if inner[0] == "array":
            n = inner[2]
    safe = idx[0] == "int" and isinstance(n, int) and 0 <= idx[1] < n
    if not safe:
        eng.obligations.append({
            "kind": "IndexCall", "pc": ctx.st.pc, "cond": None, "expected": None, "ops": [v, idx], "len": n,
            "site": ctx.site, "ln": ctx.term["ln"], "callpath": ctx.fr.callpath, "exp": ctx.term["exp"]})
    if ctx.oq.endswith("index_mut") and mr is not None:
        return ("ref", mr[1], mr[2] + (("vidx", idx),))
    return ("refv", eng.index_value(v, idx))


@model("core::slice::len", "std::vec::Vec::len")
def m_len(ctx, args):
    v, _, _ = array_like(ctx, args[0])
    n = vec_len(ctx.eng, v)
    if isinstance(n, int):
        return ("int", n)
    if isinstance(n, str):
        return ("cparam", n)            # length of a `[T; N]` viewed as a slice
    if isinstance(n, tuple) and n and n[0] in ("cparam", "const"):
        return ("cparam", n[1])
    return ("len", v)


@model("core::slice::copy_from_slice")
def m_copy_from_slice(ctx, args):
    src = val(ctx, args[1])
    dstv, _, mr = array_like(ctx, args[0])
    if args[0][0] == "ref" and args[0][2] and args[0][2][-1][0] == "srange":
        # destination is a sub-range of a local buffer: its length is the width of the range
        from .sym import seq_len
        lo, hi = args[0][2][-1][1], args[0][2][-1][2]
        whole = ctx.eng.read_loc(ctx.st, args[0][1], args[0][2][:-1])
        if hi is None:
            hi = seq_len(whole, ctx.eng.lens)
        if isinstance(hi, int):
            dstv = ("repeat", ("int", 0), hi - lo)
            # past this call the source has exactly the destination's length (otherwise the call panicked: that is
            # the CopyFromSlice obligation recorded below)
            core = src
            while core[0] in ("copied", "refv", "deref"):
                core = core[1]
            if seq_len(core, ctx.eng.lens) is None:
                ctx.eng.lens[core] = hi - lo
    ctx.eng.obligations.append({
        "kind": "CopyFromSlice", "pc": ctx.st.pc, "cond": None, "expected": None, "ops": [dstv, src],
        "site": ctx.site, "ln": ctx.term["ln"], "callpath": ctx.fr.callpath, "exp": ctx.term["exp"]})
    if args[0][0] == "ref":
        ctx.eng.write_ref(ctx.st, args[0], ("copied", src))
    elif args[0][0] == "refv" and args[0][1][0] == "slice_of":
        ctx.eng.notes.append("copy_from_slice into a slice of an immutable value ignored")
    return UNIT


@model("core::slice::split_at_mut")
def m_split_at_mut(ctx, args):
    """`buf.split_at_mut(k)` on a local buffer: two disjoint range references into the same cell."""
    r = args[0]
    k = args[1]
    if r[0] == "ref" and k[0] == "int":
        lo, hi = 0, None
        base = r[2]
        if base and base[-1][0] == "srange":
            lo, hi = base[-1][1], base[-1][2]
            base = base[:-1]
        mid = lo + k[1]
        return ("tuple", (("ref", r[1], base + (("srange", lo, mid),)), ("ref", r[1], base + (("srange", mid, hi),))))
    return ("call", ctx.oq, tuple(args))


@model("std::vec::Vec::new")
def m_vec_new(ctx, args):
    return ("vec", ())


@model("std::vec::Vec::extend_from_slice")
def m_extend(ctx, args):
    old = val(ctx, args[0])
    ctx.eng.write_ref(ctx.st, args[0], ("extend", old, val(ctx, args[1])))
    return UNIT


@model("std::ops::FnMut::call_mut", "std::ops::Fn::call", "std::ops::FnOnce::call_once")
def m_call_closure(ctx, args):
    f = args[0]
    t = args[1] if len(args) > 1 else UNIT
    cargs = list(t[1]) if t[0] == "tuple" else ([] if t == UNIT else [t])
    return call_closure(ctx, f, cargs)


@model("std::iter::Iterator::next")
def m_next(ctx, args):
    """`for` loops: the engine evaluates one symbolic iteration; the element is a bound symbol."""
    eng = ctx.eng
    it = args[0]
    cur = eng.deref_value(ctx.st, it) if is_ref(it) else it
    if cur[0] == "iter" and is_stream(cur[1]):
        shape = cur[1]
        e, _ = elem_of(shape, 0)
        v = instantiate_elem(eng, ctx, e)
        if shape[0] == "adapter" and shape[1] == "skip_while" and len(shape[3]) == 1:
            # the first element ever yielded is the first draw failing the predicate; afterwards the adapter
            # passes the underlying stream through unchanged
            skip = call_closure(ctx, shape[3][0], [("refv", v)])
            eng.assumed.append(eng.bdd.NOT(eng.tobdd(skip)))
            if it[0] == "ref":
                eng.write_ref(ctx.st, it, ("iter", shape[2]))
        return some(v)
    if not eng.binders:
        return ("call", ctx.oq, (cur,))
    uid = eng.binders[-1]
    info = eng.loops.get(uid)
    if info is None:
        return ("call", ctx.oq, (cur,))
    if uid in eng.unroll:
        kk, n_trip, shape = eng.unroll[uid]
        if kk >= n_trip:
            return NONE
        e, _ = elem_of(shape, uid)
        sub = {("idx", uid): ("int", kk)}
        for j, lf in enumerate(leaves_of(shape)):
            if lf[0] != "mutrefs":
                sub[("elem", uid, j)] = eng.src_at(lf, ("int", kk))
        e = eng.subst(e, sub)
        body = instantiate_elem(eng, ctx, e)     # draws made here are tagged with the concrete iteration (fresh_ctx)
        return some(body)
    shape = None
    if cur[0] == "iter":
        shape = cur[1]
    elif cur[0] == "lv" and cur[1] == uid:
        init = info.init_store.get(cur[2])
        if init is not None and init[0] == "iter":
            shape = init[1]
    elif cur[0] == "iter_adv" and cur[2] == uid:
        shape = cur[1]
    if shape is None:
        return ("call", ctx.oq, (cur,))
    if shape[0] == "rev":
        shape = ("revall", shape[1])
    if info.src is not None and info.src != shape:
        return ("call", ctx.oq, (cur,))
    info.kind = "iter"
    info.src = shape
    info.iter_cell = it[1] if it[0] == "ref" else None
    e, _ = elem_of(shape, uid)
    body = instantiate_elem(eng, ctx, e)
    if it[0] == "ref":
        eng.write_ref(ctx.st, it, ("iter_adv", shape, uid))
    c = eng.bdd.var(("hasnext", uid))
    return ("ite", c, some(body), NONE)


# ---------------------------------------------------------------- allocation sinks / fallible pushes (C16)
def _alloc(ctx, size, what):
    ctx.eng.obligations.append({
        "kind": "AllocSize", "pc": ctx.st.pc, "cond": None, "expected": None, "ops": [size], "what": what,
        "site": ctx.site, "ln": ctx.term["ln"], "callpath": ctx.fr.callpath, "exp": ctx.term["exp"]})


@model("std::vec::Vec::with_capacity")
def m_vec_with_capacity(ctx, args):
    _alloc(ctx, args[0], "Vec::with_capacity")
    return ("vec", ())


@model("std::vec::Vec::reserve", "std::vec::Vec::reserve_exact")
def m_vec_reserve(ctx, args):
    _alloc(ctx, args[1], "Vec::reserve")
    return UNIT


@model("std::string::String::with_capacity")
def m_string_with_capacity(ctx, args):
    _alloc(ctx, args[0], "String::with_capacity")
    return ("string", ())


@model("std::vec::from_elem")
def m_vec_from_elem(ctx, args):
    _alloc(ctx, args[1], "vec![x; n]")
    return ("vec_repeat", args[0], args[1])


@model("arrayvec::ArrayVec::push", "arrayvec::ArrayVec::insert")
def m_arrayvec_push(ctx, args):
    # documented to panic when the vector is full
    ctx.eng.obligations.append({
        "kind": "PushFull", "pc": ctx.st.pc, "cond": None, "expected": None, "ops": [val(ctx, args[0])], "what": ctx.oq,
        "site": ctx.site, "ln": ctx.term["ln"], "callpath": ctx.fr.callpath, "exp": ctx.term["exp"]})
    old = val(ctx, args[0])
    if old[0] == "arrayvec" and old[1][0] == "array" and isinstance(old[2] if len(old) > 2 else None, int) and len(old[1][1]) < old[2]:
        # literal contents below capacity: the push cannot fail and the contents stay literal
        ctx.eng.obligations.pop()
        ctx.eng.write_ref(ctx.st, args[0], ("arrayvec", ("array", old[1][1] + (args[-1],)), old[2]))
        return UNIT
    ctx.eng.write_ref(ctx.st, args[0], ("pushed", old, args[-1]))
    return UNIT


@model("arrayvec::ArrayVec::is_full")
def m_arrayvec_is_full(ctx, args):
    # the same atom try_push fails on and a guarded push is discharged by
    return ("b", ctx.eng.bdd.var(("is_full", val(ctx, args[0]))))


@model("arrayvec::ArrayVec::try_push")
def m_arrayvec_try_push(ctx, args):
    old = val(ctx, args[0])
    c = ctx.eng.bdd.var(("is_full", old))
    ctx.eng.write_ref(ctx.st, args[0], ("pushed", old, args[1]))
    return ("ite", c, err(("capacity_error", args[1])), ok(UNIT))


@model("std::vec::Vec::push")
def m_vec_push(ctx, args):
    old = val(ctx, args[0])
    ctx.eng.write_ref(ctx.st, args[0], ("pushed", old, args[1]))
    return UNIT


# ---------------------------------------------------------------------------------------------------------------
# further std combinators (added after the refactoring waves: anything unmodelled is an opaque call, i.e. sound but
# fail-closed; each entry here is the function's definition, nothing repo-specific)
@model("std::option::Option::or")
def m_opt_or(ctx, args):
    c = variant_cond(ctx.eng, args[0], 1)
    return ctx.eng.mk_ite(c, args[0], args[1])


@model("std::option::Option::or_else")
def m_opt_or_else(ctx, args):
    eng = ctx.eng
    c = variant_cond(eng, args[0], 1)
    nc = eng.bdd.NOT(c)
    r = guarded(ctx, nc, lambda: call_closure(ctx, args[1], [])) if nc != 0 else UNDEF
    return eng.mk_ite(c, args[0], r)


@model("std::option::Option::and")
def m_opt_and(ctx, args):
    c = variant_cond(ctx.eng, args[0], 1)
    return ctx.eng.mk_ite(c, args[1], NONE)


@model("std::option::Option::is_some_and")
def m_opt_is_some_and(ctx, args):
    eng = ctx.eng
    c = variant_cond(eng, args[0], 1)
    if c == 0:
        return ("b", 0)
    r = guarded(ctx, c, lambda: call_closure(ctx, args[1], [payload(eng, args[0], 1)]))
    return ("b", eng.bdd.AND(c, eng.tobdd(r)))


@model("std::option::Option::is_none_or")
def m_opt_is_none_or(ctx, args):
    eng = ctx.eng
    c = variant_cond(eng, args[0], 1)
    if c == 0:
        return ("b", 1)
    r = guarded(ctx, c, lambda: call_closure(ctx, args[1], [payload(eng, args[0], 1)]))
    return ("b", eng.bdd.OR(eng.bdd.NOT(c), eng.tobdd(r)))


@model("std::option::Option::copied", "std::option::Option::cloned")
def m_opt_copied(ctx, args):
    eng = ctx.eng
    c = variant_cond(eng, args[0], 1)
    return eng.mk_ite(c, some(eng.deref_value(ctx.st, payload(eng, args[0], 1))), NONE)


@model("std::option::Option::flatten")
def m_opt_flatten(ctx, args):
    eng = ctx.eng
    c = variant_cond(eng, args[0], 1)
    return eng.mk_ite(c, payload(eng, args[0], 1), NONE)


@model("std::option::Option::xor")
def m_opt_xor(ctx, args):
    eng = ctx.eng
    a, b = variant_cond(eng, args[0], 1), variant_cond(eng, args[1], 1)
    return eng.mk_ite(eng.bdd.AND(a, eng.bdd.NOT(b)), args[0], eng.mk_ite(eng.bdd.AND(b, eng.bdd.NOT(a)), args[1], NONE))


@model("std::result::Result::err")
def m_res_err(ctx, args):
    eng = ctx.eng
    c = variant_cond(eng, args[0], 0)
    return eng.mk_ite(c, NONE, some(payload(eng, args[0], 1)))


@model("std::result::Result::unwrap_or")
def m_res_unwrap_or(ctx, args):
    eng = ctx.eng
    c = variant_cond(eng, args[0], 0)
    return eng.mk_ite(c, payload(eng, args[0], 0), args[1])


@model("std::result::Result::unwrap_or_else")
def m_res_unwrap_or_else(ctx, args):
    eng = ctx.eng
    c = variant_cond(eng, args[0], 0)
    nc = eng.bdd.NOT(c)
    r = guarded(ctx, nc, lambda: call_closure(ctx, args[1], [payload(eng, args[0], 1)])) if nc != 0 else UNDEF
    return eng.mk_ite(c, payload(eng, args[0], 0), r)


@model("std::result::Result::or_else")
def m_res_or_else(ctx, args):
    eng = ctx.eng
    c = variant_cond(eng, args[0], 0)
    nc = eng.bdd.NOT(c)
    r = guarded(ctx, nc, lambda: call_closure(ctx, args[1], [payload(eng, args[0], 1)])) if nc != 0 else UNDEF
    return eng.mk_ite(c, ok(payload(eng, args[0], 0)), r)


@model("std::result::Result::and")
def m_res_and(ctx, args):
    eng = ctx.eng
    c = variant_cond(eng, args[0], 0)
    return eng.mk_ite(c, args[1], err(payload(eng, args[0], 1)))


@model("std::result::Result::map_or")
def m_res_map_or(ctx, args):
    eng = ctx.eng
    c = variant_cond(eng, args[0], 0)
    if c == 0:
        return args[1]
    r = guarded(ctx, c, lambda: call_closure(ctx, args[2], [payload(eng, args[0], 0)]))
    return eng.mk_ite(c, r, args[1])


@model("std::result::Result::map_or_else")
def m_res_map_or_else(ctx, args):
    eng = ctx.eng
    c = variant_cond(eng, args[0], 0)
    nc = eng.bdd.NOT(c)
    a = guarded(ctx, c, lambda: call_closure(ctx, args[2], [payload(eng, args[0], 0)])) if c != 0 else UNDEF
    b = guarded(ctx, nc, lambda: call_closure(ctx, args[1], [payload(eng, args[0], 1)])) if nc != 0 else UNDEF
    return eng.mk_ite(c, a, b)


@model("std::result::Result::is_ok_and")
def m_res_is_ok_and(ctx, args):
    eng = ctx.eng
    c = variant_cond(eng, args[0], 0)
    if c == 0:
        return ("b", 0)
    r = guarded(ctx, c, lambda: call_closure(ctx, args[1], [payload(eng, args[0], 0)]))
    return ("b", eng.bdd.AND(c, eng.tobdd(r)))


@model("std::result::Result::is_err_and")
def m_res_is_err_and(ctx, args):
    eng = ctx.eng
    c = variant_cond(eng, args[0], 0)
    nc = eng.bdd.NOT(c)
    if nc == 0:
        return ("b", 0)
    r = guarded(ctx, nc, lambda: call_closure(ctx, args[1], [payload(eng, args[0], 1)]))
    return ("b", eng.bdd.AND(nc, eng.tobdd(r)))


@model("std::mem::replace", "core::mem::replace")
def m_mem_replace(ctx, args):
    old = ctx.eng.deref_value(ctx.st, args[0])
    ctx.eng.write_ref(ctx.st, args[0], args[1])
    return old


@model("std::mem::swap", "core::mem::swap")
def m_mem_swap(ctx, args):
    a = ctx.eng.deref_value(ctx.st, args[0])
    b = ctx.eng.deref_value(ctx.st, args[1])
    ctx.eng.write_ref(ctx.st, args[0], b)
    ctx.eng.write_ref(ctx.st, args[1], a)
    return UNIT


@model("std::convert::identity", "core::convert::identity")
def m_identity(ctx, args):
    return args[0]


@model("core::num::checked_neg")
def m_checked_neg(ctx, args):
    ts = _self_int_ty(ctx)
    x = args[0]
    if ts.startswith("i") and ts[1:].isdigit():
        mn = -(1 << (int(ts[1:]) - 1))
        at_min = ctx.eng.bdd.NOT(ctx.eng.bdd.var(("icmp", "Lt", ("int", mn), x, ts)))
        return ctx.eng.mk_ite(at_min, NONE, some(("ineg", x, ts)))
    is0 = ctx.eng.bdd.NOT(ctx.eng.bdd.var(("icmp", "Lt", ("int", 0), x, ts)))
    return ctx.eng.mk_ite(is0, some(("int", 0)), NONE)


@model("core::num::signum")
def m_signum(ctx, args):
    ts = _self_int_ty(ctx)
    x = args[0]
    neg = ctx.eng.bdd.var(("icmp", "Lt", x, ("int", 0), ts))
    pos = ctx.eng.bdd.var(("icmp", "Lt", ("int", 0), x, ts))
    return ctx.eng.mk_ite(neg, ("int", -1), ctx.eng.mk_ite(pos, ("int", 1), ("int", 0)))
