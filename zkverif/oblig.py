"""Discharging panic obligations (MIR asserts, unwrap/expect, abs, indexing) collected by the engine."""
from .intervals import Intervals, FULL
from .sym import INT_RANGES


def assumed_node(S):
    b = S.eng.bdd
    n = 1
    for a in S.eng.assumed:
        n = b.AND(n, a)
    return n


def byte_len(S, t):
    """Static length of a byte-string valued term, when known."""
    k = t[0]
    if k == "digest":
        return 32            # Sha3_256 output (trusted: sha3 crate contract)
    if k == "repeat" and isinstance(t[2], int):
        return t[2]
    if k == "array":
        return len(t[1])
    if k == "bytes":
        return S.eng.lens.get(t)
    if k == "concat":
        from .sym import seq_len
        return seq_len(t, S.eng.lens)
    if k == "slice_of" and t[2][0] == "int" and t[3][0] == "int":
        return t[3][1] - t[2][1]
    if k in ("copied", "refv"):
        return byte_len(S, t[1])
    return None


def discharge(S, ob, leaf_types=None, invariants=None):
    """Returns (ok, reason, used_invariants)."""
    eng = S.eng
    bdd = eng.bdd
    pc = bdd.AND(ob["pc"], assumed_node(S))
    if pc == 0:
        return True, "unreachable (path predicate is false)", set()
    iv = Intervals(S, leaf_types, invariants)
    iv.assume(pc)
    kind = ob["kind"]
    cond = ob.get("cond")
    if kind in ("Overflow", "OverflowNeg", "DivisionByZero", "RemainderByZero", "BoundsCheck", "Other"):
        if cond is not None and cond[0] == "b":
            want = 1 if ob["expected"] else 0
            c = cond[1]
            if c == want:
                return True, "condition is constant", set()
            # implied by the path predicate?
            goal = c if ob["expected"] else bdd.NOT(c)
            if bdd.implies(pc, goal):
                return True, "implied by the guards on every path", set()
    if kind == "Overflow":
        a, b = ob["ops"]
        op = ob.get("op") or "Add"
        ty = None
        if cond is not None and cond[0] == "b":
            for at in bdd.support(cond[1]):
                if at[0] == "overflow":
                    ty = at[4]
        ra, rb = iv.range(a), iv.range(b)
        if op == "Add":
            r = (ra[0] + rb[0], ra[1] + rb[1])
        elif op == "Sub":
            r = (ra[0] - rb[1], ra[1] - rb[0])
        elif op == "Mul":
            c = [ra[0] * rb[0], ra[0] * rb[1], ra[1] * rb[0], ra[1] * rb[1]]
            r = (min(c), max(c))
        elif op in ("Shr", "Shl"):
            # the overflow check of a shift is on the shift amount: it must be below the bit width of the operand
            if ty is None:
                # MIR states the check as `amount < BITS`: read BITS off the asserted comparison, else the operand type
                for at in (bdd.support(cond[1]) if cond is not None and cond[0] == "b" else []):
                    if at[0] == "icmp" and at[1] == "Lt" and at[3][0] == "int" and at[3][1] in (8, 16, 32, 64, 128):
                        ty = {8: "u8", 16: "u16", 32: "u32", 64: "u64", 128: "u128"}[at[3][1]]
            if ty is None and a[0] == "icast":
                ty = a[3]
            if ty is None:
                t_a = iv.type_of(a)
                ty = t_a[1] if t_a and t_a[0] == "prim" else None
            tr0 = INT_RANGES.get(ty)
            bits = (tr0[1] - tr0[0]).bit_length() if tr0 else None
            if bits and rb[0] >= 0 and rb[1] < bits:
                return True, "shift amount in [%d, %d] below %d bits" % (rb[0], rb[1], bits), iv.used_invariants
            return False, "shift amount [%d, %d] can reach the bit width of %s" % (rb[0], rb[1], ty), iv.used_invariants
        else:
            return False, "unsupported checked operator %s" % op, iv.used_invariants
        tr = INT_RANGES.get(ty)
        if tr and tr[0] <= r[0] and r[1] <= tr[1]:
            return True, "%s result in [%d, %d] fits %s" % (op, r[0], r[1], ty), iv.used_invariants
        if tr and op in ("Add", "Sub"):
            # relational fallback: the guards may bound the *sum* (e.g. `by <= MAX - b`): octagon domain
            from .intlin import entails_range
            t = ("iadd" if op == "Add" else "isub", a, b, ty)
            er = entails_range(S, pc, t, tr[0], tr[1], leaf_types, invariants)
            if er:
                return True, "%s result bounded inside %s by the guards (octagon domain)" % (op, ty), iv.used_invariants
        return False, "%s of [%d,%d] and [%d,%d] can leave %s" % (op, ra[0], ra[1], rb[0], rb[1], ty), iv.used_invariants
    if kind in ("OverflowNeg", "AbsOverflow"):
        x = ob["ops"][0]
        ty = ob.get("ty")
        if ty is None and x[0] == "icast":
            ty = x[3]                     # negation of a widened value happens in the wide type
        if ty is None and x[0] in ("iadd", "isub", "imul", "ineg") and len(x) > 3:
            ty = x[3]
        if ty is None:
            t = iv.type_of(x)
            ty = t[1] if t and t[0] == "prim" else "i64"
        r = iv.range(x)
        tr = INT_RANGES.get(ty, FULL)
        if r[0] > tr[0]:
            return True, "operand in [%d, %d] excludes %s::MIN" % (r[0], r[1], ty), iv.used_invariants
        return False, "operand range [%d, %d] includes %s::MIN (negation / abs overflows)" % (r[0], r[1], ty), iv.used_invariants
    if kind in ("DivisionByZero", "RemainderByZero"):
        r = iv.range(ob["ops"][0])
        if r[0] > 0 or r[1] < 0:
            return True, "divisor in [%d, %d] excludes 0" % r, iv.used_invariants
        return False, "divisor may be 0", iv.used_invariants
    if kind == "BoundsCheck":
        ln, ix = ob["ops"]
        rl, ri = iv.range(ln), iv.range(ix)
        if ri[0] >= 0 and ri[1] < rl[0]:
            return True, "index in [%d, %d] below length %d" % (ri[0], ri[1], rl[0]), iv.used_invariants
        return False, "index range [%d, %d] not below length [%d, %d]" % (ri[0], ri[1], rl[0], rl[1]), iv.used_invariants
    if kind == "IndexCall":
        v, ix = ob["ops"]
        n = ob.get("len")
        ri = iv.range(ix)
        if isinstance(n, int) and ri[0] >= 0 and ri[1] < n:
            return True, "index in [%d, %d] below length %d" % (ri[0], ri[1], n), iv.used_invariants
        return False, "index range [%d, %d] vs length %s" % (ri[0], ri[1], n), iv.used_invariants
    if kind == "AllocSize":
        sz = ob["ops"][0]
        if sz[0] in ("int", "cparam") or (sz[0] == "icast" and sz[1][0] in ("int", "cparam")):
            return True, "allocation of a constant / const-generic number of elements", set()
        r = iv.range(sz)
        if r[1] <= 1 << 20:
            return True, "allocation bounded by %d elements" % r[1], iv.used_invariants
        return False, "allocation size not bounded by a constant", iv.used_invariants
    if kind == "PushFull":
        # push into a fixed-capacity vector inside a loop over a collection of the same length, starting empty,
        # one push per iteration: at iteration i the vector holds i < capacity elements
        v = ob["ops"][0]
        if v[0] == "lv":
            info = eng.loops.get(v[1])
            c = v[2]
            if info is not None and info.kind == "iter" and info.src is not None and c in info.step:
                from .models import shape_len
                init, step = info.init.get(c), info.step.get(c)
                n = shape_len(eng, info.src)
                cap = init[2] if init is not None and init[0] == "arrayvec" and len(init) > 2 else None
                empty = init is not None and init[0] == "arrayvec" and init[1] == ("array", ())
                one_push = step is not None and step[0] == "pushed" and step[1] == v
                if empty and one_push and cap is not None and n is not None and cap == n:
                    return True, "one push per iteration of a loop over %s elements into an empty vector of capacity %s" % (n, cap), set()
        # guarded push: `if !v.is_full() { v.push(x) }` with the vector unchanged between test and push (same term)
        if bdd.implies(pc, bdd.NOT(bdd.var(("is_full", v)))):
            return True, "push guarded by !is_full() on the same vector value", set()
        if v[0] == "arrayvec" and v[1][0] == "array" and isinstance(v[2] if len(v) > 2 else None, int) and len(v[1][1]) < v[2]:
            return True, "literal contents below capacity", set()
        return False, "push into a fixed-capacity vector that may be full", set()
    if kind == "CollectFull":
        v, cap = ob["ops"]
        from .models import vec_len
        n = vec_len(eng, v)
        if n is not None and cap is not None and n == cap:
            return True, "source has exactly the capacity's number of items", set()
        return False, "collecting an iterator of unbounded / unknown length into a fixed-capacity vector (panics on item CAP+1)", set()
    if kind == "SliceRange":
        v, lo, hi = ob["ops"]
        n = ob.get("len")
        rlo = iv.range(lo)
        rn = (n, n) if isinstance(n, int) else iv.range(("len", v))
        rhi = iv.range(hi) if hi is not None else rn
        if rlo[0] >= 0 and rlo[1] <= rhi[0] and rhi[1] <= rn[0]:
            return True, "slice bounds [%d..%d] within length %d" % (rlo[1], rhi[1], rn[0]), iv.used_invariants
        return False, "slice bounds [%s..%s] not provably within length %s" % (rlo, rhi, rn), iv.used_invariants
    if kind == "Unwrap":
        c = cond[1]
        if bdd.implies(pc, c):
            return True, "success variant on every path reaching the unwrap", set()
        # conditions of the form `fits(x)`: decide by intervals
        lits = bdd.as_conjunction(c)
        if lits is not None:
            allok = True
            for atom, pol in lits:
                if atom[0] == "fits" and pol:
                    r = iv.range(atom[1])
                    tr = INT_RANGES.get(atom[3], FULL)
                    if not (tr[0] <= r[0] and r[1] <= tr[1]):
                        allok = False
                elif atom[0] == "len_is" and pol:
                    n = byte_len(S, atom[1])
                    if n is None or n != atom[2]:
                        allok = False
                elif atom[0] == "icmp":
                    ra, rb = iv.range(atom[2]), iv.range(atom[3])
                    op = atom[1]
                    if op == "Lt":
                        truth = True if ra[1] < rb[0] else (False if ra[0] >= rb[1] else None)
                    elif op == "Le":
                        truth = True if ra[1] <= rb[0] else (False if ra[0] > rb[1] else None)
                    else:
                        truth = None
                    if truth is None:
                        truth = relational_cmp(S, pc, atom, leaf_types, invariants)
                    if truth is None or truth != pol:
                        allok = False
                elif atom[0] == "overflow" and not pol and atom[1] in ("Add", "Sub", "Mul"):
                    # `checked_op(a, b).unwrap()`: the exact result stays inside the type for all operand ranges
                    ra, rb = iv.range(atom[2]), iv.range(atom[3])
                    tr = INT_RANGES.get(atom[4])
                    if tr is None:
                        allok = False
                    else:
                        if atom[1] == "Add":
                            lo, hi = ra[0] + rb[0], ra[1] + rb[1]
                        elif atom[1] == "Sub":
                            lo, hi = ra[0] - rb[1], ra[1] - rb[0]
                        else:
                            prods = [x * y for x in ra for y in rb]
                            lo, hi = min(prods), max(prods)
                        if not (tr[0] <= lo and hi <= tr[1]):
                            allok = False
                else:
                    allok = False
            if allok:
                return True, "failure variant excluded by value ranges / static lengths", iv.used_invariants
        return False, "failure variant reachable: needs %s" % S.fmt(("b", c))[:300], iv.used_invariants
    if kind == "CopyFromSlice":
        d, s = ob["ops"]
        nd, ns = byte_len(S, d), byte_len(S, s)
        if nd is not None and nd == ns:
            return True, "both sides have static length %d" % nd, set()
        if nd is not None and ns is None:
            # the guards may have established the source length (`if v.len() != 32 { return Err(..) }`)
            def core(t):
                while t[0] in ("copied", "refv", "deref", "box"):
                    t = t[1]
                return t
            for atom, pol in bdd.necessary_literals(pc):
                if pol and atom[0] == "len_is" and atom[2] == nd and core(atom[1]) == core(s):
                    return True, "source length %d established by a guard on every path" % nd, set()
        return False, "copy_from_slice length mismatch not excluded (%s vs %s)" % (nd, ns), set()
    return False, "unsupported obligation kind %s" % kind, set()


def relational_cmp(S, pc, atom, leaf_types, invariants):
    """Decide `a < K` / `a <= K` (K constant) relationally: expand gated alternatives of `a` and ask the
    octagon domain whether the guards force the comparison.  True / False / None."""
    from .intlin import expand, entails_range
    op, a, b = atom[1], atom[2], atom[3]
    if b[0] != "int" or op not in ("Lt", "Le"):
        return None
    K = b[1] - (1 if op == "Lt" else 0)        # a <= K
    # strip value-preserving outer casts lazily: entails_range works on the term itself
    allt, allf = True, True
    for pc_i, a_i in expand(S, a, pc=pc):
        hi = entails_range(S, pc_i, a_i, -(1 << 130), K, leaf_types, invariants)
        lo = entails_range(S, pc_i, a_i, K + 1, 1 << 130, leaf_types, invariants)
        if not hi:
            allt = False
        if not lo:
            allf = False
    if allt:
        return True
    if allf:
        return False
    return None
