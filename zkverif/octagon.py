"""Octagon abstract domain over mathematical integers (constraints  +-x +-y <= c,  +-x <= c).

Used to decide *exactly* whether the region on which an arithmetic function returns Ok (a union of
conjunctions of octagonal constraints extracted from its path predicates) equals the specified
region.  Emptiness of a conjunction is decided by the standard tight closure (Floyd-Warshall on the
2n x 2n difference-bound matrix + integer tightening + strengthening); inclusion of unions by
distributing the negation of the right-hand side (sizes here are tiny).  No solver involved.
"""
import itertools

INF = float("inf")


class Oct:
    """Conjunction of octagonal constraints over named variables."""

    def __init__(self, vars_):
        self.vars = list(vars_)
        self.ix = {v: i for i, v in enumerate(self.vars)}
        n = len(self.vars)
        self.m = [[INF] * (2 * n) for _ in range(2 * n)]
        for i in range(2 * n):
            self.m[i][i] = 0

    def copy(self):
        o = Oct(self.vars)
        o.m = [r[:] for r in self.m]
        return o

    def add(self, lin, c):
        """lin: dict var -> +-1 (one or two vars);  sum lin <= c."""
        items = [(v, k) for v, k in lin.items() if k != 0]
        if not items:
            if 0 > c:
                self.m[0][0] = -1     # inconsistent
            return True
        if len(items) > 2 or any(abs(k) != 1 for _, k in items):
            return False
        if any(v not in self.ix for v, _ in items):
            return False
        # DBM encoding: node 2i = +x_i, node 2i+1 = -x_i ;  m[a][b] bounds  V_b - V_a <= m[a][b]
        def node(v, k):
            return 2 * self.ix[v] + (0 if k > 0 else 1)
        if len(items) == 1:
            (v, k), = items
            a = node(v, -k)
            b = node(v, k)
            # k*x <= c   <=>  V_b - V_a <= 2c
            self.m[a][b] = min(self.m[a][b], 2 * c)
        else:
            (v1, k1), (v2, k2) = items
            # k1*x1 + k2*x2 <= c  <=>  V(k1 x1) - V(-k2 x2) <= c  and symmetric
            a, b = node(v2, -k2), node(v1, k1)
            self.m[a][b] = min(self.m[a][b], c)
            a2, b2 = node(v1, -k1), node(v2, k2)
            self.m[a2][b2] = min(self.m[a2][b2], c)
        return True

    def close(self):
        """Tight closure; returns False when the octagon is empty over the integers."""
        n2 = len(self.m)
        m = self.m
        for _round in range(2):
            for k in range(n2):
                mk = m[k]
                for i in range(n2):
                    mik = m[i][k]
                    if mik == INF:
                        continue
                    mi = m[i]
                    for j in range(n2):
                        v = mik + mk[j]
                        if v < mi[j]:
                            mi[j] = v
            # tightening: unary bounds are even
            for i in range(n2):
                b = m[i][i ^ 1]
                if b != INF:
                    m[i][i ^ 1] = 2 * (b // 2)
            # strengthening
            for i in range(n2):
                for j in range(n2):
                    a, b = m[i][i ^ 1], m[j ^ 1][j]
                    if a != INF and b != INF:
                        v = (a + b) // 2
                        if v < m[i][j]:
                            m[i][j] = v
        for i in range(n2):
            if m[i][i] < 0:
                return False
        return True

    def is_empty(self):
        return not self.copy().close()


def negate(con):
    """not (lin <= c)  ==  (-lin <= -c-1) over the integers."""
    lin, c = con
    return ({v: -k for v, k in lin.items()}, -c - 1)


def conj_empty(vars_, cons):
    o = Oct(vars_)
    for lin, c in cons:
        if not o.add(lin, c):
            return None
    return not o.close()


def union_subset(vars_, A, B, domain):
    """A, B: lists of conjunctions (lists of constraints).  Is  (U A) & domain  a subset of  U B ?
    Returns True / False / None (non-octagonal constraint)."""
    negB = [[negate(c) for c in conj] for conj in B]
    for a in A:
        # a & domain & AND_j (OR_k not B_jk) must be empty for every choice
        if not negB:
            r = conj_empty(vars_, a + domain)
            if r is None:
                return None
            if not r:
                return False
            continue
        for choice in itertools.product(*negB):
            r = conj_empty(vars_, a + domain + list(choice))
            if r is None:
                return None
            if not r:
                return False
    return True


def witness(vars_, cons, lo=-(1 << 70), hi=1 << 70):
    """Some integer point of a non-empty octagon (for reports): unary bounds after closure."""
    o = Oct(vars_)
    for lin, c in cons:
        o.add(lin, c)
    if not o.close():
        return None
    out = {}
    fixed = []
    for v in vars_:
        i = o.ix[v]
        up = o.m[2 * i + 1][2 * i]
        dn = o.m[2 * i][2 * i + 1]
        cand = None
        if up != INF:
            cand = up // 2
        elif dn != INF:
            cand = -(dn // 2)
        else:
            cand = 0
        out[v] = cand
        # pin the variable and re-close so that the next variables stay consistent
        o.add({v: 1}, cand)
        o.add({v: -1}, -cand)
        if not o.close():
            return None
    return out
