"""C01 - Merchant establishes only channels whose hidden state matches the agreed values."""
from ..lib import *
from .oracle import *
from .zk import *

LEVEL = "other"
EXPLANATION = ("Exactness of EstablishProof::verify against the reference relation R_est (sub-verifiers inlined, challenge treated "
               "as one symbol, slots bound through the message layouts and the prover's wiring), Fiat-Shamir coverage of every "
               "non-response proof atom, statement binding, provenance of the blind-signed values in merchant::Config::initialize, "
               "and who-may-construct / who-may-call facts for the verified wrappers and blind-signing entry points.")

PV = ZPROOFS + "::EstablishProofPublicValues"
CSBS = ZA + "::states::CloseStateBlindedSignature"
BPT = ZA + "::states::BlindedPayToken"


def pv_field(prog, adt, name):
    for i, f in enumerate(adt_fields(prog, adt)):
        if f["n"] == name:
            return i
    return None


def est_oracle(rep, S, A, proof, pk, cid_s, cust_s, merch_s):
    """R_est over the given terms (normal-form Boolean in S.alg.bdd)."""
    prog = rep.prog
    b = S.alg.bdd
    bound = bind_fields(rep, A)
    lay = layouts(rep)
    pkr = public_key_roles(rep)
    cr = commitment_proof_roles(rep)
    if bound is None or lay is None or pkr is None or cr is None:
        return None
    roles = cr["proof"]
    cpi = srp_cp_index(prog)
    crs = method(prog, SRP, "conjunction_response_scalars")
    c = ("chal",)
    want = 1
    rsv = {}
    for which in ("state", "close"):
        sp = fld(proof, bound["srp"][which])
        cpv = fld(sp, cpi)
        C = com_element(S, fld(cpv, roles["C"]))
        T = com_element(S, fld(cpv, roles["T"]))
        want = b.AND(want, R_cp(S, fld(pk, pkr["g1"]), fld(pk, pkr["y1s"]), c, C, T, fld(cpv, roles["bfr"]), fld(cpv, roles["rs"]), n=5))
        rsv[which] = S.call(crs, [sp])
    pubs = {"cid": cid_s, "cust": cust_s, "merch": merch_s, "close": ("const", CLOSE_CONST)}
    n_eq = 0
    for i, hits in bound["kappa"].items():
        kap = fld(proof, i)
        designed = 0
        for pname, j in hits:
            role = lay[pname][j]
            if role not in pubs:
                continue        # coincides with the mask of a hidden slot: not part of R_est; see C14 `revealed-masks`
            want = b.AND(want, S.alg.eq(("at", rsv[pname], ("int", j)), ("add", ("mul", c, pubs[role]), kap)))
            n_eq += 1
            designed += 1
        if not designed:
            return None
    j = lay["state"].index("lock")
    jc = lay["close"].index("lock")
    want = b.AND(want, S.alg.eq(("at", rsv["state"], ("int", j)), ("at", rsv["close"], ("int", jc))))
    return want


def run(rep):
    prog = rep.prog
    from .c06 import id_encoding
    id_encoding(rep)
    from .c17 import value_encoding
    value_encoding(rep, amounts=False)      # establish has no payment amount
    from .c15 import wire_group_membership
    wire_group_membership(rep)
    rep.rule("fs-zkabacus", "every non-response atom of EstablishProof (wire form) is absorbed into the challenge before finish()")
    rep.rule("prover-verifier", "EstablishProof::new and verify derive the same challenge term for an honest proof")
    rep.rule("statement-binding", "merchant key (all five element groups), channel id, both balances and the context each reach the challenge hash")
    rep.rule("est-exact", "EstablishProof::verify returns Some iff R_est: two request proofs under the merchant's own key, s[cid]=k[cid]=c*cid+kappa, k[close]=c*CLOSE+kappa, s[lock]=k[lock], s[bal]=k[bal]=c*B+kappa for both balances")
    rep.rule("layout", "State::to_message and CloseState::to_message agree on every slot except nonce/close-tag")
    rep.rule("payload", "on acceptance verify returns (VerifiedBlindedState(state proof's commitment), VerifiedBlindedCloseState(close proof's commitment))")
    rep.rule("initialize", "merchant::Config::initialize returns Some under the same relation over its own arguments, blind-signs exactly the verified close-state commitment and returns the verified state commitment")
    rep.rule("who-may-construct", "VerifiedBlindedState / VerifiedBlindedCloseState are built only in the accepting arms of the two zkAbacus verifiers")
    rep.rule("who-may-sign", "the blind-signing wrappers are called only from initialize / activate / allow_payment / complete_payment")
    A = analyse(rep, "est")
    if A is None:
        return
    S = A.S
    fs_rule_one(rep, A)
    statement_binding(rep, A, ["key", "cid", "cust", "merch", "ctx"])
    lay = layouts(rep)
    if lay:
        okl = all(a == b for a, b in zip(lay["state"], lay["close"]) if a not in ("nonce", "close") and b not in ("nonce", "close")) \
            and lay["state"].index("nonce") == lay["close"].index("close") and "?" not in lay["state"] + lay["close"]
        if okl:
            rep.ok("layout", "state/close", sample="state=%s close=%s" % (lay["state"], lay["close"]))
        else:
            rep.fail("layout", "state/close", "message layouts disagree: state=%s close=%s" % (lay["state"], lay["close"]))
    # ---- exactness
    pkm = method(prog, MCFG, "signing_keypair")
    kpk = method(prog, KP, "public_key")
    need = {"merchant::Config::signing_keypair": pkm, "KeyPair::public_key": kpk,
            "ChannelId::to_scalar": method(prog, CHANNELID, "to_scalar"), "CustomerBalance::to_scalar": method(prog, CUSTBAL, "to_scalar"),
            "MerchantBalance::to_scalar": method(prog, MERCHBAL, "to_scalar")}
    for n, bdy in need.items():
        if not rep.anchor(n, bdy):
            return

    def enc_args(S, cid, cust, merch):
        return (S.call(need["ChannelId::to_scalar"], [cid]), S.call(need["CustomerBalance::to_scalar"], [cust]),
                S.call(need["MerchantBalance::to_scalar"], [merch]))
    ret, nch = substitute_challenge(S, A.ret)
    if nch != 1:
        rep.fail("est-exact", "challenge", "verify uses %d distinct derived challenges (expected one)" % nch, site=A.ver.loc())
        return
    accept = S.alg.nb(S.eng.eq_int(S.eng.discr(ret), 1))
    pk = S.call(kpk, [S.call(pkm, [arg(2)])])
    idx = {n: pv_field(prog, PV, n) for n in ("channel_id", "customer_balance", "merchant_balance")}
    if None in idx.values():
        rep.fail("anchor", "EstablishProofPublicValues", "public value fields changed: %s" % idx)
        return
    cid_s, cust_s, merch_s = enc_args(S, fld(arg(3), idx["channel_id"]), fld(arg(3), idx["customer_balance"]), fld(arg(3), idx["merchant_balance"]))
    want = est_oracle(rep, S, A, arg(1), pk, cid_s, cust_s, merch_s)
    if want is None:
        rep.fail("est-exact", "oracle", "cannot instantiate R_est on the current tree (roles unbound)", site=A.ver.loc())
        return
    lits = S.alg.bdd.as_conjunction(want) or []
    rep.floor("R_est conjuncts", len(lits), 10)
    from ..alg import conj_normal_form
    nf_a, nf_w = conj_normal_form(S.alg, accept), conj_normal_form(S.alg, want)
    same_relation = accept == want or (nf_a is not None and nf_a == nf_w)      # equalities compared by row space
    if same_relation and want not in (0, 1):
        rep.ok("est-exact", "EstablishProof::verify", sample="accepts iff " + explain(S, want)[:1400])
    else:
        got_l = set(S.alg.bdd.as_conjunction(accept) or [])
        missing = [explain(S, S.alg.bdd.var(a) if p else S.alg.bdd.NOT(S.alg.bdd.var(a))) for a, p in lits if (a, p) not in got_l]
        extra = [explain(S, S.alg.bdd.var(a) if p else S.alg.bdd.NOT(S.alg.bdd.var(a))) for a, p in got_l if (a, p) not in set(lits)]
        rep.fail("est-exact", "EstablishProof::verify",
                 "acceptance differs from R_est. conjuncts of R_est absent from the code: %s ; conjuncts of the code absent from R_est: %s" % (
                     [m[:300] for m in missing][:4], [e[:300] for e in extra][:4]), site=A.ver.loc())
    # ---- payload
    bound = bind_fields(rep, A)
    cr = commitment_proof_roles(rep)
    if bound and cr:
        roles = cr["proof"]
        cpi = srp_cp_index(prog)
        pay = S.eng.proj_field(("down", ret, 1), 0)
        exp = ("tuple", (("struct", VBS, 0, (("struct", VBM, 0, (fld(fld(fld(arg(1), bound["srp"]["state"]), cpi), roles["C"]),)),)),
                         ("struct", VBCS, 0, (("struct", VBM, 0, (fld(fld(fld(arg(1), bound["srp"]["close"]), cpi), roles["C"]),)),))))
        if S.same(pay, exp):
            rep.ok("payload", "EstablishProof::verify", sample=S.show(pay))
        else:
            rep.fail("payload", "EstablishProof::verify", "values handed to blind signing are not (state proof's C, close proof's C): %s" % S.show(pay), site=A.ver.loc())
    # ---- initialize
    init = method(prog, MCFG, "initialize")
    if rep.anchor("merchant::Config::initialize", init) and bound and cr:
        rep.fn(init)
        S2 = Session(prog)
        r0 = S2.eval(init)
        r, nch = substitute_challenge(S2, r0)
        acc = S2.alg.nb(S2.eng.eq_int(S2.eng.discr(r), 1))
        pk2 = S2.call(kpk, [S2.call(pkm, [arg(1)])])
        cid2, cust2, merch2 = enc_args(S2, arg(3), arg(4), arg(5))
        A2 = A
        want2 = est_oracle(rep, S2, A2, arg(6), pk2, cid2, cust2, merch2)
        nf2a, nf2w = (conj_normal_form(S2.alg, acc), conj_normal_form(S2.alg, want2)) if want2 is not None else (None, None)
        if want2 is not None and (acc == want2 or (nf2a is not None and nf2a == nf2w)) and nch == 1:
            rep.ok("initialize", "accept-condition", sample="Some iff R_est(self.key, channel_id, customer_balance, merchant_balance; proof)")
        else:
            rep.fail("initialize", "accept-condition", "initialize accepts under a relation other than R_est over its own arguments (argument order / key / balances swapped?)", site=init.loc())
        pay = S2.eng.proj_field(("down", r, 1), 0)
        okp = False
        why = S2.show(pay)[:600]
        if pay[0] == "tuple" and len(pay[1]) == 2:
            closing, vstate = pay[1]
            roles = cr["proof"]
            cpi = srp_cp_index(prog)
            Cs = fld(fld(fld(arg(6), bound["srp"]["state"]), cpi), roles["C"])
            Cc = com_element(S2, fld(fld(fld(arg(6), bound["srp"]["close"]), cpi), roles["C"]))
            okstate = S2.same(vstate, ("struct", VBS, 0, (("struct", VBM, 0, (Cs,)),)))
            sigs = find_structs(closing, SIG)
            oksig = False
            if len(sigs) == 1 and closing[0] == "struct" and closing[1] == CSBS:
                n1, n2 = bsig_parts(S2, ("struct", BSIG, 0, (sigs[0],)))
                P2 = S2.alg.poly(n2)
                us = [a for a in P2.atoms() if a[0] == "rand" and a[1] == "scalar"]
                if len(us) == 1:
                    rest = S2.alg.poly(("sub", n2, ("mul", us[0], Cc)))
                    oksig = len(rest) == 1 and list(rest.values())[0] == 1
            okp = okstate and oksig
            why = "state ok=%s, closing signature over close commitment ok=%s; %s" % (okstate, oksig, why)
        if okp:
            rep.ok("initialize", "signed-values", sample="closing signature = u*(X1 + C_close); returned VerifiedBlindedState wraps C_state")
        else:
            rep.fail("initialize", "signed-values", "initialize does not blind-sign exactly the verified close-state commitment / return the verified state commitment: %s" % why, site=init.loc())
    who_may(rep)
    rep.assumptions += ["soundness of the Schnorr/Fiat-Shamir argument for R_est with a covered transcript (special soundness, Pedersen binding, ROM)",
                        "unforgeability of PS signatures"]


def find_structs(t, adt, acc=None):
    if acc is None:
        acc = []
    if isinstance(t, tuple) and t:
        if t[0] == "struct" and t[1] == adt:
            acc.append(t)
        else:
            for x in t:
                find_structs(x, adt, acc)
    return acc


def who_may(rep):
    prog = rep.prog
    ev = method(prog, EST, "verify")
    pv = method(prog, PAY, "verify")
    allowed = {ev.id if ev else None, pv.id if pv else None}
    for adt in (VBS, VBCS):
        sites = who_constructs(prog, adt)
        rep.floor("construction sites of " + adt.split("::")[-1], len(sites), 2)
        for b, bi, s in sites:
          for root in owners_of(prog, b, stop=lambda r: r.id in allowed):
            k = "%s in %s" % (adt.split("::")[-1], root.desc["qpath"].split("::")[-2] + "::" + root.desc["name"])
            if root.id in allowed:
                rep.ok("who-may-construct", k, sample="accepting arm of %s" % root.path)
            elif is_preserving_copy(prog, b, adt):
                rep.ok("who-may-construct", k + " (copy)", sample="field-wise copy")
            else:
                rep.fail("who-may-construct", k, "%s is constructed outside the two proof verifiers, in %s" % (adt.split("::")[-1], b.path), site=b.loc())
        rec = prog.adts.get(adt)
        if rec and any(f["vis"] == "pub" for f in rec["variants"][0]["fields"]):
            rep.fail("who-may-construct", adt.split("::")[-1] + "/field-visibility", "%s has a public field: external code can wrap an unverified commitment" % adt.split("::")[-1])
    expect = {(CSBS, "sign"): {"initialize", "allow_payment"}, (BPT, "sign"): {"activate", "complete_payment"}}
    for (adt, nm), okcallers in expect.items():
        def is_entry(root, okcallers=okcallers):
            st = root.desc.get("self_ty")
            inmerchant = st is not None and strip_refs(st)[0] == "adt" and strip_refs(st)[1] in (MCFG, ZA + "::merchant::Unrevoked")
            return inmerchant and root.desc.get("name") in okcallers
        entries, offenders = entry_points_reaching(prog, lambda d, adt=adt, nm=nm: is_method_of(d, adt, nm), is_entry)
        rep.floor("API entry points reaching %s::%s" % (adt.split("::")[-1], nm), len(entries), 2)
        for root in entries.values():
            rep.ok("who-may-sign", "%s::%s <- %s" % (adt.split("::")[-1], nm, root.desc.get("name")), sample=root.path + " (directly or through private helpers)")
        for root, site_b, t in offenders:
            rep.fail("who-may-sign", "%s::%s <- %s" % (adt.split("::")[-1], nm, root.desc.get("name")),
                     "blind-signing entry point %s::%s is reachable from %s, which is neither one of the four merchant API calls nor a private helper used only by them" % (
                         adt.split("::")[-1], nm, root.path), site=site_b.loc(t.get("ln")))
