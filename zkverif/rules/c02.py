"""C02 - Merchant approves payments only for a correct, unspent, in-range state update."""
from ..lib import *
from ..alg import conj_normal_form
from .oracle import *
from .zk import *
from .c01 import find_structs, pv_field, CSBS

LEVEL = "other"
EXPLANATION = ("Exactness of PayProof::verify against R_pay (sub-verifiers and both range constraints inlined; equality chains compared "
               "through the row space of their polynomials), Fiat-Shamir coverage of every non-response atom, statement binding, "
               "returned-commitment provenance, and the wiring of merchant::Config::allow_payment.")

PPV = ZPROOFS + "::PayProofPublicValues"
RLC = ZA + "::revlock::RevocationLockCommitment"
UNREV = ZA + "::merchant::Unrevoked"
PAMT = ZA + "::PaymentAmount"


def range_atoms(rep, S, rcv, rparams, c, expected, U, L):
    """R_range(rparams, c, expected; rcv) as normal-form Boolean."""
    prog = rep.prog
    pkr = public_key_roles(rep)
    roles = commitment_proof_roles(rep)["proof"]
    pkm = method(prog, RCP, "public_key")
    pk = S.call(pkm, [rparams])
    dps = S.canon(fld(rcv, 0))
    el = ("E", dps)
    cpi, bsi = sp_indices(prog)
    cpv = fld(el, cpi)
    C = com_element(S, fld(cpv, roles["C"]))
    T = com_element(S, fld(cpv, roles["T"]))
    bfr, rs = fld(cpv, roles["bfr"]), fld(cpv, roles["rs"])
    s1, s2 = bsig_parts(S, fld(el, bsi))
    rsp = R_sp(S, pk, pkr, c, s1, s2, C, T, bfr, rs, n=1)
    b = S.alg.bdd
    all_digits = b.NOT(b.var(("any", ("B", b.NOT(rsp)))))
    rs0 = S.canon(("at", rs, ("int", 0)))
    link = S.alg.zero_atom(S.alg.wsum_poly(("int", 1), ("int", U), S.alg.poly(rs0), L).add(S.alg.poly(expected), -1))
    return b.AND(all_digits, link)


def pay_oracle(rep, S, A, proof, mcfg, nonce_s, amount_s):
    prog = rep.prog
    b = S.alg.bdd
    bound = bind_fields(rep, A)
    lay = layouts(rep)
    pkr = public_key_roles(rep)
    cr = commitment_proof_roles(rep)
    if bound is None or lay is None or pkr is None or cr is None:
        return None
    roles = cr["proof"]
    from .c13 import consts
    cs = consts(prog)
    U, L = cs.get("RP_PARAMETER_U"), cs.get("RP_PARAMETER_L")
    need = {"signing_keypair": method(prog, MCFG, "signing_keypair"), "public_key": method(prog, KP, "public_key"),
            "revocation_commitment_parameters": method(prog, MCFG, "revocation_commitment_parameters"),
            "range_constraint_parameters": method(prog, MCFG, "range_constraint_parameters"),
            "srp_rs": method(prog, SRP, "conjunction_response_scalars"), "sp_rs": method(prog, SP, "conjunction_response_scalars"),
            "cp_rs": method(prog, CP, "conjunction_response_scalars")}
    for n, m in need.items():
        if not rep.anchor(n, m):
            return None
    pk = S.call(need["public_key"], [S.call(need["signing_keypair"], [mcfg])])
    revp = S.call(need["revocation_commitment_parameters"], [mcfg])
    rngp = S.call(need["range_constraint_parameters"], [mcfg])
    c = ("chal",)
    cpi = srp_cp_index(prog)
    tcpi, tbsi = sp_indices(prog)
    want = 1
    rsv = {}
    for which in ("state", "close"):
        sp = fld(proof, bound["srp"][which])
        cpv = fld(sp, cpi)
        want = b.AND(want, R_cp(S, fld(pk, pkr["g1"]), fld(pk, pkr["y1s"]), c, com_element(S, fld(cpv, roles["C"])),
                               com_element(S, fld(cpv, roles["T"])), fld(cpv, roles["bfr"]), fld(cpv, roles["rs"]), n=5))
        rsv[which] = S.call(need["srp_rs"], [sp])
    # pay token signature proof
    tok = fld(proof, bound["other"]["token"])
    tcp = fld(tok, tcpi)
    t1, t2 = bsig_parts(S, fld(tok, tbsi))
    want = b.AND(want, R_sp(S, pk, pkr, c, t1, t2, com_element(S, fld(tcp, roles["C"])), com_element(S, fld(tcp, roles["T"])),
                           fld(tcp, roles["bfr"]), fld(tcp, roles["rs"]), n=5))
    rsv["old"] = S.call(need["sp_rs"], [tok])
    # revocation lock commitment proof under the merchant's own commitment parameters
    rl = fld(proof, bound["other"]["revlock"])
    h, gs = params_roles(S, revp)
    want = b.AND(want, R_cp(S, h, gs, c, com_element(S, fld(rl, roles["C"])), com_element(S, fld(rl, roles["T"])),
                           fld(rl, roles["bfr"]), fld(rl, roles["rs"]), n=1))
    rl_rs = S.call(need["cp_rs"], [rl])
    L_ = lay["state"]
    j = {r: L_.index(r) for r in ("cid", "nonce", "lock", "cust", "merch")}
    jc = {r: lay["close"].index(r) for r in ("cid", "close", "lock", "cust", "merch")}
    at = lambda v, i: ("at", v, ("int", i))
    s, k, t = rsv["state"], rsv["close"], rsv["old"]
    eqs = [
        (at(s, j["cid"]), at(k, jc["cid"])), (at(s, j["cid"]), at(t, j["cid"])),
        (at(rl_rs, 0), at(t, j["lock"])),
        (at(s, j["lock"]), at(k, jc["lock"])),
        (at(s, j["cust"]), at(k, jc["cust"])), (at(s, j["merch"]), at(k, jc["merch"])),
        (at(s, j["cust"]), ("sub", at(t, j["cust"]), ("mul", c, amount_s))),
        (at(s, j["merch"]), ("add", at(t, j["merch"]), ("mul", c, amount_s))),
    ]
    # revealed commitment scalars: close tag (close proof) and old nonce (pay token proof)
    for i, hits in bound["kappa"].items():
        kap = fld(proof, i)
        designed = 0
        for pname, jj in hits:
            role = lay["close" if pname == "close" else "state"][jj]
            vec = rsv[pname]
            if role == "close":
                eqs.append((at(vec, jj), ("add", ("mul", c, ("const", CLOSE_CONST)), kap)))
                designed += 1
            elif role == "nonce" and pname == "old":
                eqs.append((at(vec, jj), ("add", ("mul", c, nonce_s), kap)))
                designed += 1
            # a revealed scalar that additionally coincides with the mask of a hidden slot is not part of R_pay
            # (the verifier has no public value to check it against); C14 `revealed-masks` decides whether that is a leak
        if not designed:
            return None
    for x, y in eqs:
        want = b.AND(want, S.alg.eq(x, y))
    # range constraints: which RangeConstraint field is linked to which balance is fixed by the prover
    # (commitment scalar of the state proof's slot == the range builder's commitment scalar)
    rc = bound["other"].get("ranges", [])
    if len(rc) != 2 or "range_link" not in bound:
        return None
    for i in rc:
        slot = bound["range_link"][i]
        want = b.AND(want, range_atoms(rep, S, fld(proof, i), rngp, c, at(s, slot), U, L))
    return want


def bind_ranges(rep, A):
    """Which balance slot each RangeConstraint of the honest proof is linked to: the constraint whose
    digit response scalars sum (with weights U^j) to the state proof's response scalar of slot j."""
    bound = bind_fields(rep, A)
    if bound is None or "range_link" in bound:
        return bound
    prog = rep.prog
    S = A.SP
    roles = commitment_proof_roles(rep)["proof"]
    P, _ = substitute_challenge(S, A.P)
    cpi = srp_cp_index(prog)
    tcpi, _b = sp_indices(prog)
    srs = S.eng.proj_field(S.eng.proj_field(P[3][bound["srp"]["state"]], cpi), roles["rs"])
    link = {}
    from .c13 import consts
    U = consts(prog).get("RP_PARAMETER_U")
    for i in bound["other"].get("ranges", []):
        rcv = P[3][i]
        dps = S.canon(S.eng.proj_field(rcv, 0))
        if dps[0] != "V":
            continue
        body = dps[1]
        # digit proof element: .commitment_proof.rs[0]
        el_rs0 = S.canon(("at", S.eng.proj_field(S.eng.proj_field(body, tcpi), roles["rs"]), ("int", 0))) if body[0] == "struct" else None
        if el_rs0 is None:
            continue
        tot = S.alg.poly_term(S.alg.wsum_poly(("int", 1), ("int", U), S.alg.poly(el_rs0), dps[2]))
        for j in range(5):
            sj = S.eng.index_value(srs if srs[0] != "box" else srs[1], ("int", j))
            # honest link: s_j = c*m_j + sum U^k cs_k  and  sum U^k rs_k = c*sum U^k d_k + sum U^k cs_k
            d = S.alg.poly(("sub", sj, tot))
            # the difference must not contain any commitment-scalar randomness (it is c*(m_j - value))
            if not contains_head(S.alg.poly_term(d), "rand"):
                link[i] = j
    if len(link) == len(bound["other"].get("ranges", [])):
        bound["range_link"] = link
    return bound


def run(rep):
    prog = rep.prog
    from .c06 import id_encoding
    id_encoding(rep)
    from .c17 import value_encoding
    value_encoding(rep)
    from .c15 import wire_group_membership
    wire_group_membership(rep)
    rep.rule("fs-zkabacus", "every non-response atom of PayProof (wire form, incl. 2x9 digit proofs) is absorbed into the challenge before finish()")
    rep.rule("prover-verifier", "PayProof::new and verify derive the same challenge term for an honest proof")
    rep.rule("statement-binding", "merchant key, range parameters, nonce and context reach the challenge hash; amount and revocation-commitment parameters enter acceptance atoms (pay-exact)")
    rep.rule("pay-exact", "PayProof::verify returns Some iff R_pay (4 sub-proofs under the verifier's own parameters, 2 range constraints linked to the new balances, id/lock/nonce/close-tag/balance-update equalities with the right sign)")
    rep.rule("payload", "on acceptance verify returns (state C, close-state C, revocation-lock proof's C)")
    rep.rule("allow_payment", "allow_payment returns Some under R_pay over its own arguments, stores exactly the returned revocation commitment and verified state, blind-signs the verified close state")
    A = analyse(rep, "pay")
    if A is None:
        return
    S = A.S
    fs_rule_one(rep, A)
    statement_binding(rep, A, ["key", "nonce", "ctx", "range-params"])
    bound = bind_ranges(rep, A)
    if bound is None or "range_link" not in bound:
        rep.fail("roles", "PayProof.range-links", "cannot determine which balance each range constraint is linked to in PayProof::new", site=A.new.loc())
        return
    lay = layouts(rep)
    links = sorted(lay["state"][j] for j in bound["range_link"].values())
    if links == ["cust", "merch"]:
        rep.ok("pay-exact", "range-links(prover)", sample="range constraints are linked to the new state's customer and merchant balance slots")
    else:
        rep.fail("pay-exact", "range-links(prover)", "the prover links its range constraints to %s, not to (customer, merchant) balance" % links, site=A.new.loc())
    ret, nch = substitute_challenge(S, A.ret)
    if nch != 1:
        rep.fail("pay-exact", "challenge", "verify uses %d distinct derived challenges" % nch, site=A.ver.loc())
        return
    accept = S.alg.nb(S.eng.eq_int(S.eng.discr(ret), 1))
    ni, ai = pv_field(prog, PPV, "old_nonce"), pv_field(prog, PPV, "amount")
    nas, ats = method(prog, NONCE, "as_scalar"), method(prog, PAMT, "to_scalar")
    if None in (ni, ai) or not rep.anchor("Nonce::as_scalar", nas) or not rep.anchor("PaymentAmount::to_scalar", ats):
        rep.fail("anchor", "PayProofPublicValues", "public value fields changed")
        return
    nonce_s = S.call(nas, [fld(arg(3), ni)])
    amount_s = S.call(ats, [fld(arg(3), ai)])
    want = pay_oracle(rep, S, A, arg(1), arg(2), nonce_s, amount_s)
    if want is None:
        rep.fail("pay-exact", "oracle", "cannot instantiate R_pay on the current tree (roles unbound)", site=A.ver.loc())
        return
    nf_w, nf_g = conj_normal_form(S.alg, want), conj_normal_form(S.alg, accept)
    lits = S.alg.bdd.as_conjunction(want) or []
    rep.floor("R_pay conjuncts", len(lits), 19)
    if nf_w is not None and nf_w == nf_g:
        rep.ok("pay-exact", "PayProof::verify", sample="accepts iff R_pay (%d conjuncts; equality chains compared by row space): %s" % (len(lits), explain(S, want)[:900]))
    else:
        detail = ""
        if nf_w is not None and nf_g is not None:
            mo = [str(x)[:200] for x in (nf_w[1] - nf_g[1])]
            eo = [str(x)[:200] for x in (nf_g[1] - nf_w[1])]
            mr = len(nf_w[0] - nf_g[0])
            er = len(nf_g[0] - nf_w[0])
            detail = "equality rows only in R_pay: %d, only in code: %d; other literals only in R_pay: %s, only in code: %s" % (mr, er, mo[:3], eo[:3])
        rep.fail("pay-exact", "PayProof::verify", "acceptance differs from R_pay. " + detail, site=A.ver.loc())
    # ---- payload
    roles = commitment_proof_roles(rep)["proof"]
    cpi = srp_cp_index(prog)
    pay = S.eng.proj_field(("down", ret, 1), 0)
    exp = ("tuple", (("struct", VBS, 0, (("struct", VBM, 0, (fld(fld(fld(arg(1), bound["srp"]["state"]), cpi), roles["C"]),)),)),
                     ("struct", VBCS, 0, (("struct", VBM, 0, (fld(fld(fld(arg(1), bound["srp"]["close"]), cpi), roles["C"]),)),)),
                     ("struct", RLC, 0, (fld(fld(arg(1), bound["other"]["revlock"]), roles["C"]),))))
    if S.same(pay, exp):
        rep.ok("payload", "PayProof::verify", sample="(state C, close C, old-revocation-lock proof's C)")
    else:
        rep.fail("payload", "PayProof::verify", "returned triple is not (state C, close-state C, revocation-lock proof's C): %s" % S.show(pay)[:800], site=A.ver.loc())
    # ---- allow_payment
    ap = method(prog, MCFG, "allow_payment")
    if rep.anchor("merchant::Config::allow_payment", ap):
        rep.fn(ap)
        S2 = Session(prog)
        r0 = S2.eval(ap)
        r, nch = substitute_challenge(S2, r0)
        acc = S2.alg.nb(S2.eng.eq_int(S2.eng.discr(r), 1))
        nonce2 = S2.call(nas, [arg(4)])
        amt2 = S2.call(ats, [arg(3)])
        want2 = pay_oracle(rep, S2, A, arg(5), arg(1), nonce2, amt2)
        if want2 is not None and nch == 1 and conj_normal_form(S2.alg, acc) == conj_normal_form(S2.alg, want2):
            rep.ok("allow_payment", "accept-condition", sample="Some iff R_pay(self; amount, nonce, proof)")
        else:
            rep.fail("allow_payment", "accept-condition", "allow_payment accepts under a relation other than R_pay over its own arguments", site=ap.loc())
        pay2 = S2.eng.proj_field(("down", r, 1), 0)
        okp = False
        why = S2.show(pay2)[:500]
        if pay2[0] == "tuple" and len(pay2[1]) == 2:
            unrev, closing = pay2[1]
            Cs = fld(fld(fld(arg(5), bound["srp"]["state"]), cpi), roles["C"])
            Cc = com_element(S2, fld(fld(fld(arg(5), bound["srp"]["close"]), cpi), roles["C"]))
            Cr = fld(fld(arg(5), bound["other"]["revlock"]), roles["C"])
            oku = False
            if unrev[0] == "struct" and unrev[1] == UNREV:
                vals = [S2.canon(x) for x in unrev[3]]
                oku = S2.canon(("struct", RLC, 0, (Cr,))) in vals and S2.canon(("struct", VBS, 0, (("struct", VBM, 0, (Cs,)),))) in vals
            sigs = find_structs(closing, SIG)
            oksig = False
            if len(sigs) == 1 and closing[0] == "struct" and closing[1] == CSBS:
                n1, n2 = bsig_parts(S2, ("struct", BSIG, 0, (sigs[0],)))
                P2 = S2.alg.poly(n2)
                us = [a for a in P2.atoms() if a[0] == "rand" and a[1] == "scalar"]
                if len(us) == 1:
                    rest = S2.alg.poly(("sub", n2, ("mul", us[0], Cc)))
                    oksig = len(rest) == 1 and list(rest.values())[0] == 1
            okp = oku and oksig
            why = "pending-payment record ok=%s, closing signature over close commitment ok=%s" % (oku, oksig)
        if okp:
            rep.ok("allow_payment", "stored-and-signed", sample="Unrevoked{revocation commitment of the proof, verified state}; closing signature = u*(X1 + C_close)")
        else:
            rep.fail("allow_payment", "stored-and-signed", "allow_payment does not keep the verified revocation commitment/state or sign the verified close state: %s" % why, site=ap.loc())
    rep.assumptions += ["soundness of the composed Schnorr argument for R_pay; unforgeability of pay tokens and digit signatures",
                        "one pay token under two nonces is excluded by t[nonce] = c*nonce + kappa with kappa hashed (premise decided here) plus extractability"]
