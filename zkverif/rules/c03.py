"""C03 - Customer can always close on an unrevoked valid state; bad replies are inert."""
from ..lib import *
from .oracle import *
from .zk import *

LEVEL = "other"
EXPLANATION = ("Typestate by value reconstruction of the five customer transitions and four close functions: the accepting "
               "condition of each transition is compared with R_ps over the stage's own state/close-state message and blinding "
               "factor, the refusal arm must return the unmodified receiver, and every stage construction site must fill each "
               "(signature, state) pair either from that very verification or by moving a pair of the predecessor stage "
               "(inductive pairing invariant). who-may-call / who-may-construct facts cover revocation release.")

CUST = ZA + "::customer"
STAGES = {n: CUST + "::" + n for n in ("Requested", "Inactive", "Ready", "Started", "Locked")}
CCFG = CUST + "::Config"
CLOSING = CUST + "::ClosingMessage"
LOCKMSG = CUST + "::LockMessage"
CSS = ZA + "::states::CloseStateSignature"
PAYTOKEN = ZA + "::states::PayToken"
CSBS = ZA + "::states::CloseStateBlindedSignature"
BPT = ZA + "::states::BlindedPayToken"
CSBF = ZA + "::states::CloseStateBlindingFactor"
PTBF = ZA + "::states::PayTokenBlindingFactor"
BFS = ZA + "::proofs::BlindingFactors"


def fields_of_type(prog, adt, tpath):
    return [i for i, f in enumerate(adt_fields(prog, adt)) if f["t"][0] == "adt" and f["t"][1] == tpath]


def find_paths_of_type(prog, adt, tpath, base, depth=2):
    """Terms reaching a value of ADT type `tpath` inside a value of type `adt` (through struct fields)."""
    out = []
    for i, f in enumerate(adt_fields(prog, adt)):
        t = f["t"]
        if t[0] != "adt":
            continue
        if t[1] == tpath:
            out.append(fld(base, i))
        elif depth > 0 and t[1].startswith(ZA):
            out.extend(find_paths_of_type(prog, t[1], tpath, fld(base, i), depth - 1))
    return out


def scalar_of_bf(S, prog, term, adt):
    """The scalar inside a (newtype of a) BlindingFactor."""
    t = term
    cur = adt
    for _ in range(3):
        if cur == BF:
            return bf_scalar(S, t)
        fs = adt_fields(prog, cur)
        if len(fs) != 1 or fs[0]["t"][0] != "adt":
            return None
        t = fld(t, 0)
        cur = fs[0]["t"][1]
    return None


def sig_of(S, prog, term, adt):
    """(sigma1, sigma2) of a (wrapper of a) signature value."""
    t, cur = term, adt
    for _ in range(3):
        if cur == SIG:
            return sig_parts(S, t)
        if cur == BSIG:
            return bsig_parts(S, t)
        fs = adt_fields(prog, cur)
        if len(fs) != 1 or fs[0]["t"][0] != "adt":
            return None
        t = fld(t, 0)
        cur = fs[0]["t"][1]
    return None


def started_roles(rep):
    """Which State field of Started is the old state and which the new one: from Ready::start."""
    prog = rep.prog
    start = method(prog, STAGES["Ready"], "start")
    if not rep.anchor("Ready::start", start):
        return None
    rep.fn(start)
    S = Session(prog)
    r = S.eval(start)
    okp = S.eng.proj_field(("down", r, 0), 0)
    st = find_structs(okp, STAGES["Started"])
    if len(st) != 1:
        rep.fail("roles", "Started", "Ready::start does not build exactly one Started value on its Ok path", site=start.loc())
        return None
    sv = st[0]
    ready_state = fields_of_type(prog, STAGES["Ready"], STATE)
    state_fields = fields_of_type(prog, STAGES["Started"], STATE)
    if len(ready_state) != 1 or len(state_fields) != 2:
        rep.fail("roles", "Started", "unexpected shape of Ready / Started (State fields: %s / %s)" % (ready_state, state_fields))
        return None
    old = [i for i in state_fields if S.same(sv[3][i], fld(arg(1), ready_state[0]))]
    if len(old) != 1:
        rep.fail("roles", "Started", "cannot tell which State field of Started is the pre-payment state", site=start.loc())
        return None
    new = [i for i in state_fields if i != old[0]][0]
    return {"old": old[0], "new": new, "session": S, "ret": r, "started": sv, "start": start}


def find_structs(t, adt, acc=None):
    if acc is None:
        acc = []
    if isinstance(t, tuple) and t:
        if t[0] == "struct" and t[1] == adt:
            acc.append(t)
        for x in t:
            find_structs(x, adt, acc)
    return acc


def run(rep):
    prog = rep.prog
    rep.rule("verify-then-transition", "each transition returns Ok iff the unblinded reply (with this stage's own blinding factor) satisfies R_ps on this stage's own state / close-state message under the configured merchant key; the stored signature is that verified value")
    rep.rule("inert-refusal", "the refusal arm returns Err(self) with the receiver unmodified")
    rep.rule("pairing", "every (signature, state) pair of every constructed stage comes from that verification or is moved together from the predecessor; every close() uses a declared pair")
    rep.rule("revocation", "the revocation pair is read and a LockMessage built only on the accepting arm of Started::lock; it is the OLD state's pair while the kept state is the new one with a freshly generated pair")
    rep.rule("who-may-construct", "stage values are constructed only by the transition functions (and field-wise copies / decoders)")
    rep.rule("merchant-close-check", "merchant check_close_signature is R_ps on CloseState::to_message under the merchant's own public key (same predicate as the customer's)")
    pkr = public_key_roles(rep)
    lay = layouts(rep)
    sr = started_roles(rep)
    if pkr is None or lay is None or sr is None:
        return
    mpk = method(prog, CCFG, "merchant_public_key")
    cs_m = method(prog, STATE, "close_state")
    tm_s, tm_c = method(prog, STATE, "to_message"), method(prog, CLOSESTATE, "to_message")
    for n, b in (("customer::Config::merchant_public_key", mpk), ("State::close_state", cs_m), ("State::to_message", tm_s), ("CloseState::to_message", tm_c)):
        if not rep.anchor(n, b):
            return
    # transitions: (stage, method, reply wrapper type, which message, which state field role)
    trans = [("Requested", "complete", CSBS, "close", None), ("Inactive", "activate", BPT, "state", None),
             ("Started", "lock", CSBS, "close", "new"), ("Locked", "unlock", BPT, "state", None)]
    verified = {}
    for stage, fn, reply_adt, which, role in trans:
        b = method(prog, STAGES[stage], fn)
        key = "%s::%s" % (stage, fn)
        if not rep.anchor(key, b):
            continue
        rep.fn(b)
        S = Session(prog)
        ret = S.eval(b)
        if ret is None:
            rep.fail("verify-then-transition", key, "no normal return", site=b.loc())
            continue
        # locate arguments by type
        reply_i = [i for i in range(1, b.argc + 1) if b.locals[i][0] == "adt" and b.locals[i][1] == reply_adt]
        cfg_i = [i for i in range(1, b.argc + 1) if strip_refs(b.locals[i])[0] == "adt" and strip_refs(b.locals[i])[1] == CCFG]
        if len(reply_i) != 1 or len(cfg_i) != 1:
            rep.fail("verify-then-transition", key, "unexpected signature (reply / config parameters)", site=b.loc())
            continue
        reply, cfg = arg(reply_i[0]), arg(cfg_i[0])
        pk = S.call(mpk, [cfg])
        sfs = fields_of_type(prog, STAGES[stage], STATE)
        if stage == "Started":
            sidx = sr[role]
        elif len(sfs) == 1:
            sidx = sfs[0]
        else:
            rep.fail("verify-then-transition", key, "stage has %d State fields" % len(sfs), site=b.loc())
            continue
        state_t = fld(arg(1), sidx)
        want_bf_adt = CSBF if reply_adt == CSBS else PTBF
        bfs = find_paths_of_type(prog, STAGES[stage], want_bf_adt, arg(1))
        if len(bfs) != 1:
            rep.fail("verify-then-transition", key, "stage has %d blinding factors of type %s" % (len(bfs), want_bf_adt.split("::")[-1]), site=b.loc())
            continue
        bfv = scalar_of_bf(S, prog, bfs[0], want_bf_adt)
        sg = sig_of(S, prog, reply, reply_adt)
        if bfv is None or sg is None:
            rep.fail("verify-then-transition", key, "cannot open the reply / blinding factor wrappers", site=b.loc())
            continue
        s1, s2 = sg
        u2 = ("sub", s2, ("mul", s1, bfv))
        if which == "close":
            mv = msg_vec(S, S.call(tm_c, [S.call(cs_m, [state_t])]))
        else:
            mv = msg_vec(S, S.call(tm_s, [state_t]))
        want = R_ps(S, pk, pkr, s1, u2, mv, n=5)
        is_ok = S.alg.nb(S.eng.eq_int(S.eng.discr(ret), 0))
        if is_ok == want and want not in (0, 1):
            rep.ok("verify-then-transition", key, sample="Ok iff R_ps(merchant key; unblind(reply, own %s), %s message of own state)" % (want_bf_adt.split("::")[-1], which))
        else:
            rep.fail("verify-then-transition", key, "%s accepts a reply under %s instead of R_ps on its own %s message with its own blinding factor (%s)" % (
                key, explain(S, is_ok)[:500], which, explain(S, want)[:500]), site=b.loc())
        # refusal arm
        errp = S.eng.proj_field(("down", ret, 1), 0)
        if S.same(errp, arg(1)):
            rep.ok("inert-refusal", key, sample="Err(self), self unmodified")
        else:
            rep.fail("inert-refusal", key, "the refusal arm of %s does not hand back the unmodified receiver: %s" % (key, S.show(errp)[:400]), site=b.loc())
        # stored signature
        okp = S.eng.proj_field(("down", ret, 0), 0)
        sig_adt = CSS if reply_adt == CSBS else PAYTOKEN
        nxt = {"complete": "Inactive", "activate": "Ready", "lock": "Locked", "unlock": "Ready"}[fn]
        nv = find_structs(okp, STAGES[nxt])
        if len(nv) != 1:
            rep.fail("pairing", key, "%s does not build exactly one %s on acceptance" % (key, nxt), site=b.loc())
            continue
        nv = nv[0]
        verified_sig = ("struct", sig_adt, 0, (("struct", SIG, 0, order_sig(S, prog, s1, u2)),))
        sig_fields = fields_of_type(prog, STAGES[nxt], sig_adt)
        st_fields = fields_of_type(prog, STAGES[nxt], STATE)
        okpair = (len(sig_fields) == 1 and len(st_fields) == 1 and S.same(nv[3][sig_fields[0]], verified_sig)
                  and S.same(nv[3][st_fields[0]], state_t))
        if okpair:
            rep.ok("pairing", key + "/verified-pair", sample="%s.%s := verified signature, %s.%s := the state it was verified on" % (
                nxt, adt_fields(prog, STAGES[nxt])[sig_fields[0]]["n"], nxt, adt_fields(prog, STAGES[nxt])[st_fields[0]]["n"]))
        else:
            rep.fail("pairing", key + "/verified-pair", "%s stores a signature / state other than the pair it verified: %s" % (key, S.show(nv)[:600]), site=b.loc())
        # moved pair (close-state signature carried along with the same state)
        if fn in ("activate", "unlock"):
            cs_src = fields_of_type(prog, STAGES[stage], CSS)
            cs_dst = fields_of_type(prog, STAGES[nxt], CSS)
            if len(cs_src) == 1 and len(cs_dst) == 1 and S.same(nv[3][cs_dst[0]], fld(arg(1), cs_src[0])):
                rep.ok("pairing", key + "/moved-pair", sample="close-state signature moved together with its state")
            else:
                rep.fail("pairing", key + "/moved-pair", "%s does not carry the closing signature of the state it keeps" % key, site=b.loc())
        if fn == "lock":
            lm = find_structs(okp, LOCKMSG)
            okl = False
            if len(lm) == 1:
                pair_i = fields_of_type(prog, LOCKMSG, REVPAIR)
                rpm = method(prog, STATE, "revocation_pair")
                if len(pair_i) == 1 and rpm is not None:
                    old_pair = S.call(rpm, [fld(arg(1), sr["old"])])
                    okl = S.same(lm[0][3][pair_i[0]], old_pair)
            errs = find_structs(errp, LOCKMSG)
            if okl and not errs:
                rep.ok("revocation", "Started::lock/releases-old-pair", sample="LockMessage carries old_state's revocation pair, only inside the Ok arm")
            else:
                rep.fail("revocation", "Started::lock/releases-old-pair", "LockMessage does not carry exactly the OLD state's revocation pair on the accepting arm", site=b.loc())
    # ---- start: moved pair + fresh new state
    S = sr["session"]
    sv = sr["started"]
    rs = fields_of_type(prog, STAGES["Ready"], STATE)[0]
    cs_src = fields_of_type(prog, STAGES["Ready"], CSS)
    cs_dst = fields_of_type(prog, STAGES["Started"], CSS)
    if len(cs_src) == 1 and len(cs_dst) == 1 and S.same(sv[3][cs_dst[0]], fld(arg(1), cs_src[0])) and S.same(sv[3][sr["old"]], fld(arg(1), rs)):
        rep.ok("pairing", "Ready::start/moved-pair", sample="Started.(old signature, old state) := Ready.(close signature, state)")
    else:
        rep.fail("pairing", "Ready::start/moved-pair", "Ready::start does not move (closing signature, state) together into the old pair of Started", site=sr["start"].loc())
    newst = sv[3][sr["new"]]
    rp_i = fields_of_type(prog, STATE, REVPAIR)
    fresh = False
    if newst[0] == "struct" and len(rp_i) == 1:
        fresh = contains_head(newst[3][rp_i[0]], "rand") and not contains_term(newst[3][rp_i[0]], arg(1))
    if fresh:
        rep.ok("revocation", "Ready::start/fresh-pair", sample="the new state's revocation pair is generated from fresh randomness inside start()")
    else:
        rep.fail("revocation", "Ready::start/fresh-pair", "the new state's revocation pair is not freshly generated in start()", site=sr["start"].loc())
    # ---- close() of every stage uses a declared pair
    pairs = {"Inactive": None, "Ready": None, "Started": "old", "Locked": None}
    for stage, role in pairs.items():
        b = method(prog, STAGES[stage], "close")
        key = stage + "::close"
        if not rep.anchor(key, b):
            continue
        rep.fn(b)
        S = Session(prog)
        r = S.eval(b)
        sidx = sr["old"] if stage == "Started" else fields_of_type(prog, STAGES[stage], STATE)[0]
        sgi = fields_of_type(prog, STAGES[stage], CSS)
        cm = find_structs(r, CLOSING)
        okc = False
        why = ""
        if len(cm) == 1 and len(sgi) == 1:
            csf = fields_of_type(prog, CLOSING, CLOSESTATE)
            sgf = fields_of_type(prog, CLOSING, CSS)
            if len(csf) == 1 and len(sgf) == 1:
                want_cs = S.call(cs_m, [fld(arg(1), sidx)])
                s1, s2 = sig_of(S, prog, fld(arg(1), sgi[0]), CSS)
                g1, g2 = sig_of(S, prog, cm[0][3][sgf[0]], CSS)
                rr = [a for a in S.alg.poly(g1).atoms() if a[0] == "rand"]
                okc = (S.same(cm[0][3][csf[0]], want_cs) and len(rr) == 1 and S.same(g1, ("mul", s1, rr[0])) and S.same(g2, ("mul", s2, rr[0])))
                why = S.show(cm[0])[:500]
        if okc:
            rep.ok("pairing", key, sample="closing message = (randomised paired signature, close state of the paired state%s)" % (" [pre-payment state]" if stage == "Started" else ""))
        else:
            rep.fail("pairing", key, "%s does not close on its declared (signature, state) pair: %s" % (key, why), site=b.loc())
    # ---- who-may-call / who-may-construct
    lock = method(prog, STAGES["Started"], "lock")
    cs = callers_of(prog, lambda d: is_method_of(d, STATE, "revocation_pair"))
    rep.floor("callers of State::revocation_pair", len(cs), 1)
    for b, bi, t in cs:
        for root in owners_of(prog, b, stop=lambda r: lock is not None and r.id == lock.id):
            if lock is not None and root.id == lock.id:
                rep.ok("revocation", "who-may-call revocation_pair <- Started::lock", sample=root.path + " (directly or through a private helper used only by it)")
            else:
                rep.fail("revocation", "who-may-call revocation_pair <- " + root.desc.get("qpath", "?"), "State::revocation_pair (releases the revocation secret) is called outside Started::lock, in %s" % root.path, site=b.loc(t.get("ln")))
    for b, bi, s in who_constructs(prog, LOCKMSG):
        for root in owners_of(prog, b):
            if lock is not None and root.id == lock.id:
                rep.ok("revocation", "who-may-construct LockMessage", sample=root.path)
            else:
                rep.fail("revocation", "who-may-construct LockMessage in " + root.desc.get("qpath", "?"), "LockMessage is constructed outside Started::lock", site=b.loc())
    allowed = {"Requested": {("Requested", "new")}, "Inactive": {("Requested", "complete")}, "Ready": {("Inactive", "activate"), ("Locked", "unlock")},
               "Started": {("Ready", "start")}, "Locked": {("Started", "lock")}}
    for stage, ok_sites in allowed.items():
        sites = who_constructs(prog, STAGES[stage])
        rep.floor("construction sites of " + stage, len(sites), 1)
        for b, bi, s in sites:
          for root in owners_of(prog, b):
            st = root.desc.get("self_ty")
            owner = strip_refs(st)[1].split("::")[-1] if st is not None and strip_refs(st)[0] == "adt" else "?"
            k = "%s <- %s::%s" % (stage, owner, root.desc.get("name"))
            if (owner, root.desc.get("name")) in ok_sites:
                rep.ok("who-may-construct", k, sample=root.path, nontrivial=False)
            elif root.from_expansion or b.from_expansion:
                # derived Deserialize / Clone: decided by C15 / C20 (codec symmetry), not a protocol transition
                rep.ok("who-may-construct", k + " (derived)", sample="derive-generated body", nontrivial=False)
            else:
                rep.fail("who-may-construct", k, "%s is constructed outside its transition functions, in %s" % (stage, b.path), site=b.loc())
    # ---- merchant close check
    ccs = method(prog, MCFG, "check_close_signature")
    if rep.anchor("merchant::Config::check_close_signature", ccs):
        rep.fn(ccs)
        S = Session(prog)
        r = S.eval(ccs)
        pkm, kpk = method(prog, MCFG, "signing_keypair"), method(prog, KP, "public_key")
        pk = S.call(kpk, [S.call(pkm, [arg(1)])])
        s1, s2 = sig_of(S, prog, arg(2), CSS)
        mv = msg_vec(S, S.call(tm_c, [arg(3)]))
        want = R_ps(S, pk, pkr, s1, s2, mv, n=5)
        got = S.alg.nb(S.eng.eq_int(S.eng.discr(r), 0)) if r is not None else None
        if got == want:
            rep.ok("merchant-close-check", "check_close_signature", sample="Verified iff R_ps(own key; sig, CloseState message)")
        else:
            rep.fail("merchant-close-check", "check_close_signature", "merchant close check is not R_ps on the close-state message under its own key: %s" % (explain(S, got)[:600] if got is not None else None), site=ccs.loc())
    rep.assumptions += ["unforgeability: a reply that verifies is a real merchant signature", "serde restores a stage faithfully (C20)",
                        "randomising a valid signature with r != 0 keeps it valid (C07 chain identity)"]


def order_sig(S, prog, s1, s2):
    """Field order of Signature bound through its accessors."""
    t1, _ = sig_parts(S, ("struct", SIG, 0, (("s1",), ("s2",))))
    return (s1, s2) if S.canon(t1) == ("s1",) else (s2, s1)


def contains_term(t, needle):
    if t == needle:
        return True
    if isinstance(t, tuple):
        return any(contains_term(x, needle) for x in t)
    return False
