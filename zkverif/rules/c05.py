"""C05 - New pay token is issued only against a valid revocation of the previous state."""
from ..lib import *
from ..intlin import expand
from .oracle import *
from .zk import *
from .c03 import find_structs, sig_of

LEVEL = "other"
EXPLANATION = ("Value reconstruction of Unrevoked::complete_payment (accept condition == R_open of the stored revocation-lock "
               "commitment under the merchant's own commitment parameters, the supplied blinding factor and the pair's lock; refusal "
               "returns the unmodified pending payment; the token signs the stored verified state) and an establishment check of "
               "the RevocationPair invariant lock == from_bytes(SHA3-256(secret || index)) at every construction site and path "
               "(who-may-construct over the whole program, including the decode path).")

UNREV = ZA + "::merchant::Unrevoked"
RLBF = ZA + "::revlock::RevocationLockBlindingFactor"
RLC = ZA + "::revlock::RevocationLockCommitment"
RSEC = ZA + "::revlock::RevocationSecret"
URP = ZA + "::revlock::UncheckedRevocationPair"
URS = ZA + "::revlock::UncheckedRevocationSecret"
BPT = ZA + "::states::BlindedPayToken"


def run(rep):
    prog = rep.prog
    from .c19 import independent_generators
    independent_generators(rep)
    rep.rule("token-iff-open", "complete_payment returns Ok iff R_open(stored revocation-lock commitment; merchant's commitment parameters, supplied blinding factor, (pair.lock)) - all four inputs used")
    rep.rule("refusal-inert", "on failure the pending payment is returned unchanged (Err(self))")
    rep.rule("token-on-stored-state", "the issued pay token is a blind signature on the verified state stored by allow_payment")
    rep.rule("pair-invariant", "every RevocationPair value built anywhere has lock == Scalar::from_bytes(SHA3-256(secret.to_bytes() || [index])) (canonical branch), with the stored secret being the hashed one")
    rep.rule("who-may-construct", "RevocationPair aggregates exist only in the validating conversion; fields are private; decoding goes through it")
    cp = method(prog, UNREV, "complete_payment")
    if not rep.anchor("Unrevoked::complete_payment", cp):
        return
    rep.fn(cp)
    S = Session(prog)
    ret = S.eval(cp)
    # roles
    fs = adt_fields(prog, UNREV)
    ci = [i for i, f in enumerate(fs) if strip_refs(f["t"])[0] == "adt" and strip_refs(f["t"])[1] == MCFG]
    li = [i for i, f in enumerate(fs) if f["t"][0] == "adt" and f["t"][1] == RLC]
    si = [i for i, f in enumerate(fs) if f["t"][0] == "adt" and f["t"][1] == VBS]
    rcp = method(prog, MCFG, "revocation_commitment_parameters")
    rlm = method(prog, REVPAIR, "revocation_lock")
    lts = method(prog, REVLOCK, "to_scalar")
    if not (len(ci) == 1 and len(li) == 1 and len(si) == 1 and rep.anchor("merchant::Config::revocation_commitment_parameters", rcp)
            and rep.anchor("RevocationPair::revocation_lock", rlm) and rep.anchor("RevocationLock::to_scalar", lts)):
        rep.fail("anchor", "Unrevoked fields", "unexpected shape of Unrevoked")
        return
    cfg = ("deref", fld(arg(1), ci[0]))
    params = S.call(rcp, [cfg])
    h, gs = params_roles(S, params)
    pair_i = [i for i in range(1, cp.argc + 1) if strip_refs(cp.locals[i])[0] == "adt" and strip_refs(cp.locals[i])[1] == REVPAIR]
    bf_i = [i for i in range(1, cp.argc + 1) if strip_refs(cp.locals[i])[0] == "adt" and strip_refs(cp.locals[i])[1] == RLBF]
    if len(pair_i) != 1 or len(bf_i) != 1:
        rep.fail("anchor", "complete_payment signature", "unexpected parameters")
        return
    lock = S.call(lts, [S.call(rlm, [arg(pair_i[0])])])
    bf = bf_scalar(S, fld(arg(bf_i[0]), 0))
    C = com_element(S, fld(fld(arg(1), li[0]), 0))
    want = R_open(S, h, gs, bf, ("array", (lock,)), C, n=1)
    is_ok = S.alg.nb(S.eng.eq_int(S.eng.discr(ret), 0)) if ret is not None else None
    if is_ok == want and want not in (0, 1):
        rep.ok("token-iff-open", "Unrevoked::complete_payment", sample="Ok iff " + explain(S, want)[:500])
    else:
        rep.fail("token-iff-open", "Unrevoked::complete_payment", "a pay token is issued under %s instead of exactly R_open(commitment; params, bf, lock) = %s" % (
            explain(S, is_ok)[:500] if is_ok is not None else None, explain(S, want)[:500]), site=cp.loc())
    errp = S.eng.proj_field(("down", ret, 1), 0)
    if S.same(errp, arg(1)):
        rep.ok("refusal-inert", "Unrevoked::complete_payment", sample="Err(self), self unmodified")
    else:
        rep.fail("refusal-inert", "Unrevoked::complete_payment", "the refusal arm does not hand the pending payment back unchanged: %s" % S.show(errp)[:400], site=cp.loc())
    okp = S.eng.proj_field(("down", ret, 0), 0)
    sg = sig_of(S, prog, okp, BPT) if okp[0] == "struct" and okp[1] == BPT else None
    oks = False
    if sg is not None:
        Cs = None
        t = fld(arg(1), si[0])
        from .c08 import unwrap_to_commitment
        Cs = unwrap_to_commitment(S, prog, t, ("adt", VBS, ()))
        P2 = S.alg.poly(sg[1])
        us = [a for a in P2.atoms() if a[0] == "rand" and a[1] == "scalar"]
        if Cs is not None and len(us) == 1:
            rest = S.alg.poly(("sub", sg[1], ("mul", us[0], Cs)))
            oks = len(rest) == 1 and list(rest.values())[0] == 1
    if oks:
        rep.ok("token-on-stored-state", "Unrevoked::complete_payment", sample="token = (u*g, u*(X1 + C_state)) for the stored verified state")
    else:
        rep.fail("token-on-stored-state", "Unrevoked::complete_payment", "the issued token does not sign the stored verified state commitment", site=cp.loc())
    # ---- pair invariant at every construction site
    sites = who_constructs(prog, REVPAIR)
    rep.floor("RevocationPair construction sites", len(sites), 1)
    done = set()
    for b, bi, s in sites:
      for root in owners_of(prog, b):
        if root.id in done:
            continue
        done.add(root.id)
        check_pair_values(rep, root, "site")
    # functions returning RevocationPair values obtained elsewhere (decode path, generator)
    for nm, b in (("TryFrom<UncheckedRevocationPair>", impl_try_from(prog, REVPAIR, URP)), ("RevocationPair::new", method(prog, REVPAIR, "new"))):
        if rep.anchor(nm, b) and b.id not in done:
            check_pair_values(rep, b, "producer")
    rec = prog.adts.get(REVPAIR)
    if rec and any(f["vis"] == "pub" for f in rec["variants"][0]["fields"]):
        rep.fail("who-may-construct", "RevocationPair/field-visibility", "RevocationPair has a public field")
    else:
        rep.ok("who-may-construct", "RevocationPair/field-visibility", sample="all fields private", nontrivial=False)
    rep.assumptions += ["preimage / collision resistance of SHA3-256; binding of the Pedersen commitment",
                        "Scalar::from_bytes returns Some exactly for canonical encodings (bls12_381 contract)"]


def impl_try_from(prog, target, source):
    for b in trait_method_impls(prog, "std::convert::TryFrom", "try_from"):
        st = b.desc.get("self_ty")
        if st and st[0] == "adt" and st[1] == target and b.argc == 1 and b.locals[1][0] == "adt" and b.locals[1][1] == source:
            return b
    return None


def check_pair_values(rep, body, kind):
    """Every RevocationPair value in the function's result satisfies the hash invariant on its path."""
    prog = rep.prog
    rep.fn(body)
    S = Session(prog)
    ret = S.eval(body)
    key = body.desc["qpath"].replace(ZA + "::", "") if body.desc.get("trait") is None else "%s(%s)" % (body.desc["name"], ty_str(body.locals[1]))
    if ret is None:
        rep.fail("pair-invariant", key, "no normal return", site=body.loc())
        return
    n = 0
    bad = []
    lock_i = [i for i, f in enumerate(adt_fields(prog, REVPAIR)) if f["t"][0] == "adt" and f["t"][1] == REVLOCK]
    sec_i = [i for i, f in enumerate(adt_fields(prog, REVPAIR)) if f["t"][0] == "adt" and f["t"][1] == RSEC]
    sfs = adt_fields(prog, RSEC)
    sc_i = [i for i, f in enumerate(sfs) if ty_str(f["t"]) == "Scalar"]
    ix_i = [i for i, f in enumerate(sfs) if f["t"] == ("prim", "u8")]
    if not (len(lock_i) == 1 and len(sec_i) == 1 and len(sc_i) == 1 and len(ix_i) == 1):
        rep.fail("anchor", "RevocationPair shape", "unexpected fields of RevocationPair / RevocationSecret")
        return
    from ..oblig import assumed_node
    for pc, leaf in expand(S, ret):
        for pv in find_structs(leaf, REVPAIR):
            n += 1
            lockv = pv[3][lock_i[0]]
            secv = pv[3][sec_i[0]]
            L = S.eng.proj_field(lockv, 0)
            s = S.eng.proj_field(secv, sc_i[0])
            ix = S.eng.proj_field(secv, ix_i[0])
            D = ("digest", ("absorb", ("absorb", ("hash0",), ("bytes", s)), ("array", (ix,))))
            want = ("decode", "Scalar", D)
            pcx = S.eng.bdd.AND(pc, assumed_node(S))
            canon_ok = S.eng.bdd.implies(pcx, S.eng.bdd.var(("canonical", "Scalar", D)))
            same = S.canon(L) == S.canon(want)
            if not same:
                # equal by a dominating equality guard on exactly these two values?
                cl, cw = S.canon(L), S.canon(want)
                for atom, pol in S.eng.bdd.necessary_literals(pcx):
                    if pol and atom[0] == "eqv" and {S.canon(atom[1]), S.canon(atom[2])} == {cl, cw}:
                        same = True
            if not (same and canon_ok):
                bad.append("lock = %s ; expected from_bytes(SHA3(secret || [index])) with secret = %s, index = %s%s" % (
                    S.show(L)[:160], S.show(s)[:80], S.show(ix)[:60], "" if canon_ok else " ; canonical-digest guard missing"))
    if bad:
        rep.fail("pair-invariant", key, "%s can yield a RevocationPair whose lock is not the hash of its secret and index: %s" % (body.path, bad[0]), site=body.loc())
    elif n == 0:
        rep.fail("pair-invariant", key, "%s: no RevocationPair value reconstructed (fail closed)" % body.path, site=body.loc())
    else:
        rep.ok("pair-invariant", key, sample="%d value(s): lock == from_bytes(SHA3-256(bytes(secret) || [index])) on the canonical branch" % n)
