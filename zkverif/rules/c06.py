"""C06 - An accepted proof is rejected under any other statement, key or context."""
from ..lib import *
from ..transcript import hasher_items, flat_atoms
from .oracle import *
from .zk import *

LEVEL = "other"
EXPLANATION = ("Structural necessary condition decided for every input: each component of the verification tuple influences "
               "acceptance the way the relation says - it reaches the Fiat-Shamir hash (reconstructed transcript) or an atom of "
               "the exact acceptance relation (C01/C02), the public value compared in each slot is the verifier's own argument, "
               "Context::new hashes the whole input and as_bytes returns exactly the digest, and the merchant's close check covers "
               "all four close-state fields and the close tag. The probabilistic `is rejected` (2^-255 slack) is cryptography.")


def run(rep):
    prog = rep.prog
    rep.rule("statement-binding", "establish: key, channel id, both balances, context reach the hash; pay: key, range parameters, nonce, context reach the hash")
    rep.rule("relation-binding", "pay: amount and revocation-commitment parameters occur in atoms of the exact acceptance relation (C02 pay-exact); establish public values occur in R_est atoms (C01 est-exact)")
    rep.rule("context", "Context::new stores SHA3-256 over the whole input slice; as_bytes returns those 32 bytes unchanged")
    rep.rule("close-check-coverage", "check_close_signature is R_ps on (enc(channel id), CLOSE, lock, enc(customer balance), enc(merchant balance)): every close-state field is a message coordinate")
    A1 = analyse(rep, "est")
    A2 = analyse(rep, "pay")
    if A1 is not None:
        statement_binding(rep, A1, ["key", "cid", "cust", "merch", "ctx"])
    if A2 is not None:
        statement_binding(rep, A2, ["key", "nonce", "ctx", "range-params"])
    # relation binding: reuse the exactness verdicts
    from . import c01, c02
    sub1 = Sub(rep, {"est-exact": "relation-binding"}, "EstablishProof")
    sub2 = Sub(rep, {"pay-exact": "relation-binding"}, "PayProof")
    try:
        c01.run(sub1)
        c02.run(sub2)
    except Exception as e:
        rep.fail("relation-binding", "exactness", "cannot evaluate the exact acceptance relations: %r" % (e,))
    if A2 is not None:
        S = A2.S
        ret, _ = substitute_challenge(S, A2.ret)
        acc = S.eng.eq_int(S.eng.discr(ret), 1)
        atoms = S.eng.bdd.support(acc)
        ai = [i for i, f in enumerate(adt_fields(prog, ZPROOFS + "::PayProofPublicValues")) if f["n"] == "amount"]
        amount_used = ai and any(contains_term(a, fld(arg(3), ai[0], "amount")) or contains_field_of(a, ("arg", 3), ai[0]) for a in atoms)
        rcp = method(prog, MCFG, "revocation_commitment_parameters")
        rv = S.call(rcp, [arg(2)]) if rcp else None
        rev_used = rv is not None and any(contains_term(S.canon(("B", 0)) if False else a, None) is False and term_mentions(S, a, S.canon(rv)) for a in atoms)
        if amount_used:
            rep.ok("relation-binding", "PayProof/amount", sample="the public amount occurs in the balance-update atoms of the acceptance relation")
        else:
            rep.fail("relation-binding", "PayProof/amount", "the payment amount influences neither the hash nor any acceptance atom", site=A2.ver.loc())
        if rev_used:
            rep.ok("relation-binding", "PayProof/revocation-parameters", sample="the merchant's own commitment parameters occur in the revocation-lock proof atom")
        else:
            rep.fail("relation-binding", "PayProof/revocation-parameters", "the revocation-commitment parameters influence neither the hash nor any acceptance atom", site=A2.ver.loc())
    # ---- channel id encoding
    id_encoding(rep)
    # ---- context
    cn = method(prog, CONTEXT, "new")
    ab = method(prog, CONTEXT, "as_bytes")
    if rep.anchor("Context::new", cn) and rep.anchor("Context::as_bytes", ab):
        rep.fn(cn)
        rep.fn(ab)
        S = Session(prog)
        v = S.eval(cn)
        stored = S.eng.proj_field(v, 0) if v is not None else None
        while stored is not None and stored[0] in ("copied",):
            stored = stored[1]
        okc = stored is not None and stored[0] == "digest" and hasher_items(S, stored[1]) == [("item", S.canon(arg(1)))]
        out = S.call(ab, [("struct", CONTEXT, 0, (("ctxbytes",),))])
        oka = out is not None and S.canon(out) == ("ctxbytes",)
        if okc and oka:
            rep.ok("context", "Context", sample="Context(bytes) = SHA3-256(bytes); as_bytes() = the stored digest")
        else:
            rep.fail("context", "Context", "context bytes do not all reach the transcript: new -> %s ; as_bytes -> %s" % (S.show(stored)[:200] if stored else None, S.show(out)[:100] if out else None), site=cn.loc())
    # ---- close check coverage
    from .c03 import sig_of, CSS
    ccs = method(prog, MCFG, "check_close_signature")
    tm_c = method(prog, CLOSESTATE, "to_message")
    pkr = public_key_roles(rep)
    lay = layouts(rep)
    if rep.anchor("merchant::Config::check_close_signature", ccs) and tm_c is not None and pkr and lay:
        rep.fn(ccs)
        S = Session(prog)
        r = S.eval(ccs)
        pkm, kpk = method(prog, MCFG, "signing_keypair"), method(prog, KP, "public_key")
        pk = S.call(kpk, [S.call(pkm, [arg(1)])])
        s1, s2 = sig_of(S, prog, arg(2), CSS)
        mv = msg_vec(S, S.call(tm_c, [arg(3)]))
        want = R_ps(S, pk, pkr, s1, s2, mv, n=5)
        got = S.alg.nb(S.eng.eq_int(S.eng.discr(r), 0)) if r is not None else None
        nf = len(adt_fields(prog, CLOSESTATE))
        cm = S.canon(mv)
        cover = set()
        if cm[0] == "array":
            for i in range(nf):
                if any(contains_field_of(e, ("arg", 3), i) for e in cm[1]):
                    cover.add(i)
        if got == want and len(cover) == nf and lay["close"].count("close") == 1:
            rep.ok("close-check-coverage", "check_close_signature", sample="all %d close-state fields and the close tag are message coordinates of the verified relation" % nf)
        else:
            rep.fail("close-check-coverage", "check_close_signature", "the close check does not cover every close-state field (covered field indices %s of %d) or is not R_ps" % (sorted(cover), nf), site=ccs.loc())
    rep.assumptions += ["rejection of a specific substituted value is probabilistic (c*delta = 0 only with probability 2^-255; a different hash input gives an unrelated challenge)",
                        "ChannelId::to_scalar reduces 32 arbitrary bytes mod q (noted; outside the property's quantifier)"]


class Sub:
    """Forward selected rule verdicts of another property's module under this property's rule names."""

    def __init__(self, rep, rulemap, prefix):
        self.__dict__.update(rep=rep, rulemap=rulemap, prefix=prefix, prog=rep.prog, pid=rep.pid, extra={}, assumptions=[], notes=[])

    def rule(self, *a):
        pass

    def fn(self, b):
        self.rep.fn(b)

    def note(self, s):
        pass

    def ok(self, rule, key, sample=None, **kw):
        if rule in self.rulemap:
            self.rep.ok(self.rulemap[rule], "%s/%s" % (self.prefix, key), sample=sample)

    def fail(self, rule, key, msg, site=None, **kw):
        if rule in self.rulemap or rule in ("anchor", "engine", "roles"):
            self.rep.fail(self.rulemap.get(rule, rule), "%s/%s" % (self.prefix, key), msg, site=site)

    def anchor(self, what, obj):
        return self.rep.anchor(what, obj)

    def floor(self, name, got, exp):
        return self.rep.floor(name, got, exp) if got < exp else True


def contains_term(t, needle):
    if needle is None:
        return False
    if t == needle:
        return True
    if isinstance(t, tuple):
        return any(contains_term(x, needle) for x in t)
    return False


def contains_field_of(t, base, idx):
    if isinstance(t, tuple) and t:
        if t[0] == "field" and t[1] == base and t[2] == idx:
            return True
        return any(contains_field_of(x, base, idx) for x in t)
    return False


def term_mentions(S, t, needle):
    c = S.canon(t) if isinstance(t, tuple) and t and t[0] not in ("B",) else t
    return contains_term(c, needle) or contains_sub(c, needle)


def contains_sub(t, needle):
    """needle is a canonical struct/field term: look for any of its leaf field-paths inside t."""
    if not isinstance(needle, tuple):
        return False
    leaves = []

    def lv(x):
        if isinstance(x, tuple) and x:
            if x[0] == "field":
                leaves.append(x)
            else:
                for y in x:
                    lv(y)
    lv(needle)
    return any(contains_term(t, l) for l in leaves)


def id_encoding(rep):
    """ChannelId::to_scalar is the full-width byte-linear embedding (shared with C01 / C02 / C18 as a necessary
    condition: the proofs bind the channel id only through this scalar)."""
    prog = rep.prog
    rep.rule("id-encoding", "ChannelId::to_scalar is the full-width little-endian embedding sum id[i]*256^i (mod q): every bit of the 32-byte id reaches the proof and the signed message with its own weight (collisions only at multiples of q, never between near ids)")
    ts = method(prog, CHANNELID, "to_scalar")
    if rep.anchor("ChannelId::to_scalar", ts):
        from ..bytelin import full_embedding
        rep.fn(ts)
        S0 = Session(prog)
        v = S0.eval(ts)
        okb, why = (False, "no normal return") if v is None else full_embedding(S0, v, fld(arg(1), 0), 32)
        pan = [o for o in S0.eng.obligations if o["kind"] in ("Unwrap",)] if okb else []
        if okb and not pan:
            rep.ok("id-encoding", "ChannelId::to_scalar", sample="from_raw of the four little-endian limbs = sum_{i<32} id[i]*256^i, total (no partial decode)")
        elif okb:
            rep.fail("id-encoding", "ChannelId::to_scalar", "the channel id encoding is partial (a decode can fail for some 32-byte ids)", site=ts.loc())
        else:
            rep.fail("id-encoding", "ChannelId::to_scalar", "channel ids differing in one byte can map to the same scalar: %s" % why, site=ts.loc())
