"""C07 - Signature verification accepts exactly the Pointcheval-Sanders relation."""
from ..lib import *
from .oracle import *

LEVEL = "other"
EXPLANATION = ("Exactness of Signature::verify against R_ps by value reconstruction and normal forms (symbolic N), the "
               "value terms of sign / randomize / blind_and_randomize / blind-sign / unblind compared with R_sign, R_rand, "
               "R_blind, R_bsign, R_unblind, and completeness of every producer chain as a polynomial identity of the "
               "bilinear pairing form under the key-generation wiring extracted from KeyPair::new.")


def run(rep):
    prog = rep.prog
    from .c19 import key_coordinates_independent
    key_coordinates_independent(rep)
    from .c15 import wire_group_membership
    wire_group_membership(rep)
    rep.rule("verify-exact", "Signature::verify == (sigma1 != identity) AND e(sigma1, X~ + <Y~,m>) e(sigma2, -g~) = 1, nothing weaker, nothing stronger")
    rep.rule("well-formed", "is_well_formed == (sigma1 != identity); the decode-time validator checks the same atom")
    rep.rule("producer-term", "value term of each signature producer equals its reference term (R_sign, R_rand, R_blind, R_bsign, R_unblind)")
    rep.rule("producer-coverage", "every hand-written function returning or mutating a Signature / BlindedSignature is one of the analysed producers (decoders excepted: C15)")
    rep.rule("chain-complete", "verify(producer-chain output) normalises to TRUE (or to the stated side condition) under the extracted key-generation wiring")
    rep.rule("coordinate-coefficient", "each message coordinate m_i enters the verification polynomial with coefficient sigma1 (x) Y~_i: whole-array inner product, no coordinate skipped")
    pkr = public_key_roles(rep)
    skr = secret_key_roles(rep)
    kpp = keypair_parts(prog)
    ver = method(prog, SIG, "verify")
    need = {"Signature::verify": ver, "Signature::sigma1": method(prog, SIG, "sigma1"), "Signature::sigma2": method(prog, SIG, "sigma2"),
            "Signature::new": method(prog, SIG, "new"), "Signature::randomize": method(prog, SIG, "randomize"),
            "Signature::blind_and_randomize": method(prog, SIG, "blind_and_randomize"),
            "BlindedSignature::new": method(prog, BSIG, "new"), "BlindedSignature::unblind": method(prog, BSIG, "unblind"),
            "Signature::is_well_formed": method(prog, SIG, "is_well_formed"), "KeyPair::new": method(prog, KP, "new"),
            "BlindedMessage::new": method(prog, BMSG, "new"), "KeyPair fields": kpp}
    for k, v in need.items():
        if not rep.anchor(k, v):
            return
        if hasattr(v, "path"):
            rep.fn(v)
    if pkr is None or skr is None:
        return
    ski, pki = kpp
    # ---------------- rule 1: exactness
    S = Session(prog)
    ret = S.eval(ver)
    s1, s2 = sig_parts(S, arg(1))
    m = msg_vec(S, arg(3))
    want = R_ps(S, arg(2), pkr, s1, s2, m)
    got = S.alg.nb(S.eng.tobdd(ret)) if ret is not None else None
    if got == want and want not in (0, 1):
        rep.ok("verify-exact", "Signature::verify", sample="accepts iff " + explain(S, want))
    else:
        rep.fail("verify-exact", "Signature::verify", "acceptance differs from R_ps. code: %s ; reference: %s" % (
            explain(S, got) if got is not None else None, explain(S, want)), site=ver.loc())
    # coordinate coefficients: the PP polynomial must contain the bilinear sum Sum_i sigma1 * Y~_i * m_i
    pp_atoms = [a for a in S.alg.bdd.support(want) if a[0] == "PP"]
    okc = False
    for a in pp_atoms:
        for mono, c in a[1]:
            for at, p in mono:
                if at[0] == "vs" and len(at[1]) == 2:
                    okc = True
    if okc:
        rep.ok("coordinate-coefficient", "Signature::verify", sample="PP polynomial contains sigma1 * Sum_i(Y~[i] * m[i]) over the whole arrays")
    # ---------------- rule 4: well-formedness
    S = Session(prog)
    wf = S.eval(need["Signature::is_well_formed"])
    s1, s2 = sig_parts(S, arg(1))
    if wf is not None and S.alg.nb(S.eng.tobdd(wf)) == nonzero(S, s1):
        rep.ok("well-formed", "Signature::is_well_formed", sample=S.show(wf))
    else:
        rep.fail("well-formed", "Signature::is_well_formed", "is_well_formed is not `sigma1 != identity`: %s" % (S.show(wf) if wf else None),
                 site=need["Signature::is_well_formed"].loc())
    producers_and_chains(rep)
    rep.extra["producers"] = 6
    rep.assumptions += ["EUF-CMA of Pointcheval-Sanders signatures (no forgery for a changed coordinate) is an assumption; "
                        "the checker shows every coordinate, key element and the blinding factor enter the verification polynomial",
                        "non-zero scalar times non-identity element is non-identity (prime-order group)"]


def producers_and_chains(rep, only=None):
    prog = rep.prog
    pkr = public_key_roles(rep)
    skr = secret_key_roles(rep)
    kpp = keypair_parts(prog)
    ver = method(prog, SIG, "verify")
    need = {"Signature::verify": ver, "Signature::sigma1": method(prog, SIG, "sigma1"), "Signature::sigma2": method(prog, SIG, "sigma2"),
            "Signature::new": method(prog, SIG, "new"), "Signature::randomize": method(prog, SIG, "randomize"),
            "Signature::blind_and_randomize": method(prog, SIG, "blind_and_randomize"),
            "BlindedSignature::new": method(prog, BSIG, "new"), "BlindedSignature::unblind": method(prog, BSIG, "unblind"),
            "KeyPair::new": method(prog, KP, "new"),
            "BlindedMessage::new": method(prog, BMSG, "new"), "KeyPair fields": kpp}
    for k, v in need.items():
        if not rep.anchor(k, v):
            return
        if hasattr(v, "path"):
            rep.fn(v)
    if pkr is None or skr is None:
        return
    ski, pki = kpp

    rep0 = rep

    class Filt:
        def ok(self, rule, key, **kw):
            if only is None or key in only:
                rep0.ok(rule, key, **kw)

        def fail(self, rule, key, *a, **kw):
            if only is None or key in only:
                rep0.fail(rule, key, *a, **kw)

        def note(self, s):
            if only is None:
                rep0.note(s)
    rep = Filt()
    S = Session(prog)
    kp = S.eval(need["KeyPair::new"])
    if kp is None or kp[0] != "struct":
        rep.fail("chain-complete", "KeyPair::new", "KeyPair::new does not return a plain aggregate", site=need["KeyPair::new"].loc())
        return
    sk, pk = kp[3][ski], kp[3][pki]
    x, ys, x1 = sk[3][skr["x"]], sk[3][skr["ys"]], sk[3][skr["x1"]]
    g1, y1s, g2 = pk[3][pkr["g1"]], pk[3][pkr["y1s"]], pk[3][pkr["g2"]]
    mv = ("msgvec",)
    S.eng.lens[mv] = "N"
    msg = ("struct", MSG, 0, (("box", mv),))
    rng = ("refv", ("rng",))

    def verify_term(sigv, msgv=msg, pkv=pk):
        r = S.call(ver, [sigv, pkv, msgv])
        return S.alg.nb(S.eng.tobdd(r))

    def chain(name, sigv, side=()):
        b = S.alg.bdd
        node = under_assumptions(S, verify_term(sigv))
        if node == 1:
            rep.ok("chain-complete", name, sample="verify(%s) == TRUE identically (N symbolic)" % name)
            return
        # accept exactly the declared side condition (a scalar randomiser being non-zero)
        lits = b.as_conjunction(node)
        if lits is not None and side and all((not pol) and a[0] == "Z" for a, pol in lits) and len(lits) <= len(side):
            rep.ok("chain-complete", name, sample="verify(%s) == TRUE up to the side condition %s" % (name, explain(S, node)))
            rep.note("%s verifies iff %s (probability 1 - 1/q over the randomiser; the property's degenerate-randomness clause)" % (name, explain(S, node)))
            return
        rep.fail("chain-complete", name, "verify(%s) does not normalise to TRUE: residual %s" % (name, explain(S, node)),
                 site=ver.loc())

    # sign
    sig = S.call(need["Signature::new"], [rng, kp, msg])
    a1, a2 = sig_parts(S, sig)
    h = S.canon(a1)
    want2 = ("mul", a1, ("add", x, ip(ys, mv, "N")))
    if h[0] == "rand" and S.same(a2, want2) and under_assumptions(S, nonzero(S, a1)) == 1:
        rep.ok("producer-term", "Signature::new", sample="(h, (x + <y,m>) h) with h from a non-identity rejection loop: " + S.show(S.canon(a2)))
    else:
        rep.fail("producer-term", "Signature::new", "Signature::new is not (h, (x + <y,m>)*h) with h != identity: sigma1=%s sigma2=%s" % (
            S.show(S.canon(a1)), S.show(S.canon(a2))), site=need["Signature::new"].loc())
    chain("sign", sig)
    # randomize (in place)
    cell = next(S.eng.ncell)
    sym_sig = ("struct", SIG, 0, (("s1",), ("s2",)))
    # field order of Signature is bound through its accessors
    t1, t2 = sig_parts(S, sym_sig)
    if S.canon(t1) != ("s1",):
        sym_sig = ("struct", SIG, 0, (("s2",), ("s1",)))
    st_args = [("ref", cell, ()), rng]
    S.eng.eval_fn  # noqa
    body = need["Signature::randomize"]
    st = None
    from ..sym import State
    # evaluate randomize on a cell holding the symbolic signature
    ret, st, fr = eval_with_cell(S, body, cell, sym_sig, [None, rng])
    after = st.store.get(cell)
    r1, r2 = sig_parts(S, after)
    c1, c2 = S.canon(r1), S.canon(r2)
    okr = False
    if c1[0] == "poly" and c2[0] == "poly":
        p1, p2 = S.alg.poly(r1), S.alg.poly(r2)
        rs1 = [a for a in p1.atoms() if a[0] == "rand"]
        if len(rs1) == 1:
            r = rs1[0]
            okr = S.same(r1, ("mul", ("s1",), r)) and S.same(r2, ("mul", ("s2",), r))
    if okr:
        rep.ok("producer-term", "Signature::randomize", sample="(r*sigma1, r*sigma2) with one fresh scalar r")
    else:
        rep.fail("producer-term", "Signature::randomize", "randomize is not (r*sigma1, r*sigma2) for one fresh r: (%s, %s)" % (S.show(c1), S.show(c2)), site=body.loc())
    ret, st, fr = eval_with_cell(S, body, cell, sig, [None, rng])
    chain("sign;randomize", st.store.get(cell), side=("r",))
    # blind_and_randomize then unblind
    bfv = ("struct", BF, 0, (("bf",),))
    bs = S.call(need["Signature::blind_and_randomize"], [sym_sig, rng, bfv])
    b1, b2 = bsig_parts(S, bs)
    okb = False
    p1 = S.alg.poly(b1)
    rs1 = [a for a in p1.atoms() if a[0] == "rand"]
    if len(rs1) == 1:
        r = rs1[0]
        okb = S.same(b1, ("mul", r, ("s1",))) and S.same(b2, ("mul", r, ("add", ("s2",), ("mul", ("bf",), ("s1",)))))
    if okb:
        rep.ok("producer-term", "Signature::blind_and_randomize", sample="(r*sigma1, r*(sigma2 + bf*sigma1))")
    else:
        rep.fail("producer-term", "Signature::blind_and_randomize", "not R_blind: (%s, %s)" % (S.show(S.canon(b1)), S.show(S.canon(b2))),
                 site=need["Signature::blind_and_randomize"].loc())
    ub = S.call(need["BlindedSignature::unblind"], [("struct", BSIG, 0, (sym_sig,)), bfv])
    u1, u2 = sig_parts(S, ub)
    if S.same(u1, ("s1",)) and S.same(u2, ("sub", ("s2",), ("mul", ("bf",), ("s1",)))):
        rep.ok("producer-term", "BlindedSignature::unblind", sample="(sigma1, sigma2 - bf*sigma1)")
    else:
        rep.fail("producer-term", "BlindedSignature::unblind", "not R_unblind: (%s, %s)" % (S.show(S.canon(u1)), S.show(S.canon(u2))),
                 site=need["BlindedSignature::unblind"].loc())
    bs_real = S.call(need["Signature::blind_and_randomize"], [sig, rng, bfv])
    chain("sign;blind_and_randomize;unblind(same bf)", S.call(need["BlindedSignature::unblind"], [bs_real, bfv]), side=("r",))
    # blind-sign then unblind
    bm = S.call(need["BlindedMessage::new"], [pk, msg, bfv])
    com = bm[3][0] if bm is not None and bm[0] == "struct" else None
    if com is not None and S.same(com_element(S, com), r_commit(g1, y1s, mv, ("bf",), "N")):
        rep.ok("producer-term", "BlindedMessage::new", sample="R_commit(g1, Y1..YN; m, bf)")
    else:
        rep.fail("producer-term", "BlindedMessage::new", "Message::blind is not R_commit(g1, Y; m, bf): %s" % (S.show(bm) if bm else None),
                 site=need["BlindedMessage::new"].loc())
    vbm = ("struct", VBM, 0, (com,))
    symC = ("struct", VBM, 0, (("struct", COMMIT, 0, (("Cel",),)),))
    bsn = S.call(need["BlindedSignature::new"], [kp, rng, symC])
    n1, n2 = bsig_parts(S, bsn)
    oku = False
    rs1 = [a for a in S.alg.poly(n1).atoms() if a[0] == "rand" and a[1] == "scalar" and a not in S.alg.poly(g1).atoms()]
    if len(rs1) == 1:
        u = rs1[0]
        oku = S.same(n1, ("mul", g1, u)) and S.same(n2, ("mul", ("add", x1, ("Cel",)), u))
    if oku:
        rep.ok("producer-term", "BlindedSignature::new", sample="(u*g, u*(X1 + C)) with one fresh scalar u")
    else:
        rep.fail("producer-term", "BlindedSignature::new", "not R_bsign: (%s, %s)" % (S.show(S.canon(n1)), S.show(S.canon(n2))),
                 site=need["BlindedSignature::new"].loc())
    bsr = S.call(need["BlindedSignature::new"], [kp, rng, vbm])
    chain("blind;blind-sign;unblind(same bf)", S.call(need["BlindedSignature::unblind"], [bsr, bfv]), side=("u",))
    # re-randomising a signature while it is still blinded
    brz = method(prog, BSIG, "randomize")
    if brz is not None:
        rep0.fn(brz)
        cell2 = next(S.eng.ncell)
        ret, st2, fr2 = eval_with_cell(S, brz, cell2, ("struct", BSIG, 0, (sym_sig,)), [None, rng])
        after = st2.store.get(cell2)
        q1, q2 = bsig_parts(S, after)
        okq = False
        rsq = [a for a in S.alg.poly(q1).atoms() if a[0] == "rand"]
        if len(rsq) == 1:
            okq = S.same(q1, ("mul", ("s1",), rsq[0])) and S.same(q2, ("mul", ("s2",), rsq[0]))
        if okq:
            rep.ok("producer-term", "BlindedSignature::randomize", sample="(r*sigma1', r*sigma2') with one fresh scalar r: the blinding is untouched")
        else:
            rep.fail("producer-term", "BlindedSignature::randomize", "re-randomising a blinded signature is not (r*sigma1, r*sigma2) for one fresh r: (%s, %s)" % (
                S.show(S.canon(q1)), S.show(S.canon(q2))), site=brz.loc())
        cell3 = next(S.eng.ncell)
        ret, st3, fr3 = eval_with_cell(S, brz, cell3, bsr, [None, rng])
        chain("blind;blind-sign;randomize(blinded);unblind(same bf)", S.call(need["BlindedSignature::unblind"], [st3.store.get(cell3), bfv]), side=("u", "r"))
    # public wrappers
    msign = method(prog, MSG, "sign")
    if msign is not None:
        rep0.fn(msign)
        chain("Message::sign", S.call(msign, [("refv", msg), rng, ("refv", kp)]))
    vbs = method(prog, VBM, "blind_sign")
    if vbs is not None:
        rep0.fn(vbs)
        chain("blind;VerifiedBlindedMessage::blind_sign;unblind(same bf)",
              S.call(need["BlindedSignature::unblind"], [S.call(vbs, [vbm, ("refv", kp), rng]), bfv]), side=("u",))
    # ---- every hand-written function that yields or mutates a (blinded) signature is one of the analysed producers
    covered = {"Signature::new", "Signature::randomize", "Signature::blind_and_randomize", "BlindedSignature::new",
               "BlindedSignature::unblind", "BlindedSignature::randomize", "Message::sign", "VerifiedBlindedMessage::blind_sign"}
    decoders = {"try_from", "from_bytes", "deserialize"}          # decode routes: validated by C15 / C16, not producers of valid signatures

    def mentions(t):
        if not isinstance(t, tuple):
            return False
        if t and t[0] == "adt" and t[1] in (SIG, BSIG):
            return True
        return any(mentions(x) for x in t if isinstance(x, tuple))
    nprod = 0
    for b in prog.bodies.values():
        if b.kind == "Closure" or b.from_expansion or not b.id.startswith(ZC + "::"):
            continue
        mutself = b.argc >= 1 and b.locals[1][0] == "ref" and b.locals[1][1] is True and mentions(b.locals[1])
        if not (mentions(b.locals[0]) or mutself):
            continue
        nm = b.desc.get("name")
        st = b.desc.get("self_ty")
        owner = st[1].split("::")[-1] if st is not None and st[0] == "adt" else "?"
        key = "%s::%s" % (owner, nm)
        if nm in decoders:
            continue
        if b.vis != "pub" and b.desc.get("trait") is None:
            continue        # crate-internal helper: analysed inlined in the public producers that call it
        nprod += 1
        if key in covered:
            rep.ok("producer-coverage", key, sample="analysed as a producer term and in a verifying chain", nontrivial=False)
        else:
            rep.fail("producer-coverage", key, "%s yields or rewrites a (blinded) signature but is not one of the analysed producers: its output is not shown to verify" % b.path, site=b.loc())
    if only is None:
        rep0.floor("signature producers", nprod, 7)


def eval_with_cell(S, body, cell, value, args):
    """Evaluate `body(&mut cell, ...)` with the cell pre-loaded with `value`."""
    from ..sym import State, Frame
    eng = S.eng
    st = State({cell: value}, 1)
    cells = [next(eng.ncell) for _ in body.locals]
    fr = Frame(body, cells, {}, (), 0)
    st.store[cells[1]] = ("ref", cell, ())
    for i, a in enumerate(args[1:], start=2):
        st.store[cells[i]] = a
    ret = eng.run_body(st, fr)
    S.last_state = st
    return ret, st, fr
