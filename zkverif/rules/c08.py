"""C08 - Blind signing yields a signature on exactly the message proven in the request."""
from ..lib import *
from .oracle import *
from . import c11, c07

LEVEL = "other"
EXPLANATION = ("who-may-construct over all aggregate sites and constructor uses of VerifiedBlindedMessage in the type-checked "
               "program, exactness of the one constructing verifier against R_srp (accept condition and payload provenance), "
               "visibility facts from rustc's tables, and the blind -> blind-sign -> unblind -> verify chain as a polynomial "
               "identity under the extracted key-generation wiring.")

STATES = ZA + "::states"


def run(rep):
    prog = rep.prog
    from .c19 import key_coordinates_independent
    key_coordinates_independent(rep)
    from .c15 import wire_group_membership
    wire_group_membership(rep)
    rep.rule("who-may-construct", "VerifiedBlindedMessage is built only in the accepting arm of SignatureRequestProof::verify_knowledge_of_opening")
    rep.rule("not-forgeable", "no public constructor / field / unwrapping accessor of VerifiedBlindedMessage is nameable outside the crate")
    rep.rule("srp-exact", "the constructing verifier returns Some iff R_cp under (g1, Y) of the argument key and challenge; payload = the proof's own commitment")
    rep.rule("chain-complete", "unblind(blind_sign(commit(m, bf)), bf) verifies on m identically (side condition: signing randomiser != 0)")
    rep.rule("signers", "every caller of BlindedSignature::new passes a VerifiedBlindedMessage it received by value (no other source)")
    cr = commitment_proof_roles(rep)
    pkr = public_key_roles(rep)
    if cr is None or pkr is None:
        return
    # 1. who may construct
    v = method(prog, SRP, "verify_knowledge_of_opening")
    if not rep.anchor("SignatureRequestProof::verify_knowledge_of_opening", v):
        return
    sites = who_constructs(prog, VBM)
    rep.floor("VerifiedBlindedMessage construction sites", len(sites), 1)
    for b, bi, s in sites:
      for root in owners_of(prog, b, stop=lambda r: r.id == v.id):
        if root.id == v.id:
            rep.ok("who-may-construct", "%s" % root.desc["qpath"], sample="constructed in %s" % b.path)
        elif is_preserving_copy(prog, b, VBM):
            rep.ok("who-may-construct", "copy:" + root.desc.get("trait", "?"), sample="field-wise copy of an existing value in %s" % b.path)
        else:
            rep.fail("who-may-construct", root.desc["qpath"],
                     "VerifiedBlindedMessage is constructed outside the accepting verifier, in %s" % b.path, site=b.loc())
    # 2. visibility
    rec = prog.adts.get(VBM)
    if rep.anchor("VerifiedBlindedMessage type", rec):
        bad = [f for f in rec["variants"][0]["fields"] if f["vis"] == "pub"]
        if bad:
            rep.fail("not-forgeable", "field-visibility", "VerifiedBlindedMessage has a public field: external code can wrap any commitment", site=rec["span"]["file"])
        else:
            rep.ok("not-forgeable", "field-visibility", sample="fields: %s" % [f["vis"] for f in rec["variants"][0]["fields"]])
    # public functions (of either crate) that return a VerifiedBlindedMessage built from their arguments
    for b in prog.bodies.values():
        if b.kind == "Closure" or b.id == v.id:
            continue
        rt = b.locals[0]
        if mentions_adt(rt, VBM) and b.vis == "pub" and not b.from_expansion:
            # clone() is fine (needs one already); anything else must be the verifier
            if b.desc.get("trait") == "std::clone::Clone":
                continue
            rep.fail("not-forgeable", "public-producer:" + b.desc["qpath"],
                     "public function %s returns a VerifiedBlindedMessage without being the accepting verifier" % b.path, site=b.loc())
    for name in ("into_commitment", "into_g1"):
        m = method(prog, VBM, name)
        if m is not None:
            if m.vis == "pub":
                rep.fail("not-forgeable", "accessor:" + name, "VerifiedBlindedMessage::%s is public" % name, site=m.loc())
            else:
                rep.ok("not-forgeable", "accessor:" + name, sample="visibility %s" % m.vis, nontrivial=False)
    # 3. exactness of the constructing verifier
    c11.check_srp(rep, cr["proof"], pkr)
    # 4. signers
    callers = callers_of(prog, lambda d: is_method_of(d, BSIG, "new"))
    rep.floor("callers of BlindedSignature::new", len(callers), 3)
    for b, bi, t in callers:
        S = Session(prog)
        ret = S.eval(b)
        rep.fn(b)
        src = None
        for i in range(1, b.argc + 1):
            pt = b.locals[i]
            if pt[0] == "adt" and pt[1] in (VBM, STATES + "::VerifiedBlindedState", STATES + "::VerifiedBlindedCloseState"):
                src = i
        okc = False
        why = "no by-value verified-blinded parameter"
        if src is not None and ret is not None:
            C = unwrap_to_commitment(S, prog, arg(src), b.locals[src])
            sigs = find_structs(ret, SIG)
            why = "result carries no signature aggregate"
            if C is not None and len(sigs) == 1:
                bs = ("struct", BSIG, 0, (sigs[0],))
                n1, n2 = bsig_parts(S, bs)
                P2 = S.alg.poly(n2)
                us = [a for a in P2.atoms() if a[0] == "rand" and a[1] == "scalar"]
                why = "sigma2 is not u*(X1 + C) for the parameter's commitment C: %s" % S.show(S.canon(n2))
                if len(us) == 1:
                    u = us[0]
                    rest = S.alg.poly(("sub", n2, ("mul", u, C)))
                    # what remains must be u * (one key atom)
                    if len(rest) == 1:
                        (mono, co), = rest.items()
                        okc = co == 1 and len(mono) == 2 and any(a == u for a, _ in mono)
        if okc:
            rep.ok("signers", b.desc["qpath"], sample="signs exactly the commitment carried by its verified-blinded parameter %d: sigma2 = u*(X1 + C)" % src)
        else:
            rep.fail("signers", b.desc["qpath"], "%s: %s" % (b.path, why), site=b.loc(b.blocks[bi]["term"]["ln"]))
    # 5. chain
    c07.producers_and_chains(rep, only=("BlindedMessage::new", "BlindedSignature::new", "blind;blind-sign;unblind(same bf)"))
    rep.assumptions += ["that a verifying request proof implies knowledge of an opening is Schnorr soundness (not decided)",
                        "EUF-CMA of PS signatures for 'no tuple differing in any coordinate'"]


def mentions_adt(t, adt):
    if not isinstance(t, tuple):
        return False
    if t[0] == "adt":
        return t[1] == adt or any(mentions_adt(a, adt) for a in t[2])
    if t[0] in ("ref", "ptr"):
        return mentions_adt(t[2], adt)
    if t[0] == "tuple":
        return any(mentions_adt(a, adt) for a in t[1])
    if t[0] in ("array", "slice"):
        return mentions_adt(t[1], adt)
    return False


def unwrap_to_commitment(S, prog, term, ty):
    """Descend single-field wrappers until the Commitment; return its group element."""
    for _ in range(4):
        if ty[0] != "adt":
            return None
        if ty[1] == COMMIT:
            return com_element(S, term)
        fs = adt_fields(prog, ty[1])
        if len(fs) != 1:
            return None
        term = fld(term, 0)
        ty = fs[0]["t"]
    return None


def find_structs(t, adt, acc=None):
    if acc is None:
        acc = []
    if isinstance(t, tuple) and t:
        if t[0] == "struct" and t[1] == adt:
            acc.append(t)
        else:
            for x in t:
                find_structs(x, adt, acc)
    return acc


def contains_arg_commitment(S, ret, src):
    """The returned value's sigma2 must contain the parameter's commitment element linearly, and no
    other parameter-derived group element besides the signing key's."""
    found = [False]

    def walk(t):
        if not isinstance(t, tuple):
            return
        if t[0] == "field":
            base = t
            while isinstance(base, tuple) and base[0] == "field":
                base = base[1]
            if base == ("arg", src):
                found[0] = True
        for x in t:
            walk(x)
    walk(S.canon(ret))
    return found[0]
