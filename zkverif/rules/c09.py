"""C09 - Commitments are the exact Pedersen map and open only to what was committed."""
from ..lib import *

LEVEL = "other"
EXPLANATION = ("Value reconstruction (gated single-assignment terms over MIR, crate-local callees inlined) of the "
               "commitment constructor, the opening verifier and the parameter constructors, compared as identities "
               "in the polynomial/linear-form normal form with the reference relation R_commit / R_open, for symbolic "
               "group G and symbolic length N (one analysis covers both groups and every tuple length).")

COMMIT = ZC + "::pedersen::Commitment"
PARAMS = ZC + "::pedersen::PedersenParameters"
MSG = ZC + "::Message"
BF = ZC + "::BlindingFactor"
PK = ZC + "::pointcheval_sanders::PublicKey"
TOPP = ZC + "::pedersen::ToPedersenParameters"


def roles_params(S, prog, target):
    """h, gs of a PedersenParameters value, bound through its accessor functions."""
    h = S.call(method(prog, PARAMS, "h"), [target])
    gs = S.call(method(prog, PARAMS, "gs"), [target])
    return h, gs


def message_vec(S, prog, target):
    return S.call(method(prog, MSG, "deref", "std::ops::Deref"), [target])


def run(rep):
    prog = rep.prog
    from .c19 import independent_generators
    independent_generators(rep)
    rep.rule("commit-exact", "Commitment::new(msg, params, bf) == bf*h + <gs, msg> as a normal-form identity (symbolic G, N)")
    rep.rule("open-exact", "verify_opening returns exactly the single atom R_commit(params; msg, bf) == self")
    rep.rule("params-wiring", "from_generators / to_pedersen_parameters / accessors store and return the documented generators")
    rep.rule("forwarding", "Message::commit forwards (self, params, bf) unchanged to Commitment::new")
    new = method(prog, COMMIT, "new")
    vo = method(prog, COMMIT, "verify_opening")
    te = method(prog, COMMIT, "to_element")
    commit = method(prog, MSG, "commit")
    fg = method(prog, PARAMS, "from_generators")
    for n, b in (("Commitment::new", new), ("Commitment::verify_opening", vo), ("Commitment::to_element", te),
                 ("Message::commit", commit), ("PedersenParameters::from_generators", fg),
                 ("PedersenParameters::h", method(prog, PARAMS, "h")), ("PedersenParameters::gs", method(prog, PARAMS, "gs")),
                 ("Message::deref", method(prog, MSG, "deref", "std::ops::Deref")),
                 ("BlindingFactor::as_scalar", method(prog, BF, "as_scalar"))):
        if not rep.anchor(n, b):
            return
        rep.fn(b)

    # ---- rule 1: Commitment::new
    S = Session(prog)
    ret = S.eval(new)
    h, gs = roles_params(S, prog, arg(2))
    m = message_vec(S, prog, arg(1))
    bf = S.call(method(prog, BF, "as_scalar"), [arg(3)])
    want_el = r_commit(h, gs, m, bf, "N")
    got_el = S.call(te, [ret]) if ret is not None else None
    if got_el is not None and S.same(got_el, want_el):
        rep.ok("commit-exact", "Commitment::new", sample="to_element(Commitment::new(msg,params,bf)) = " + S.show(got_el))
    else:
        rep.fail("commit-exact", "Commitment::new",
                 "Commitment::new does not compute bf*h + <gs,msg>: got %s, reference %s" % (
                     S.show(got_el) if got_el else None, S.show(want_el)), site=new.loc(),
                 detail={"got": S.show(S.canon(got_el)) if got_el else None, "want": S.show(S.canon(want_el))})

    # ---- forwarding: Message::commit(self, params, bf)
    S2 = Session(prog)
    r2 = S2.eval(commit)
    h2, gs2 = roles_params(S2, prog, arg(2))
    m2 = message_vec(S2, prog, arg(1))
    bf2 = S2.call(method(prog, BF, "as_scalar"), [arg(3)])
    el2 = S2.call(te, [r2]) if r2 is not None else None
    if el2 is not None and S2.same(el2, r_commit(h2, gs2, m2, bf2, "N")):
        rep.ok("forwarding", "Message::commit", sample=S2.show(el2))
    else:
        rep.fail("forwarding", "Message::commit", "Message::commit is not R_commit(params; self, bf): %s" % (S2.show(el2) if el2 else None),
                 site=commit.loc())

    # ---- rule 2: verify_opening
    S3 = Session(prog)
    r3 = S3.eval(vo)
    h3, gs3 = roles_params(S3, prog, arg(2))
    m3 = message_vec(S3, prog, arg(4))
    bf3 = S3.call(method(prog, BF, "as_scalar"), [arg(3)])
    self_el = S3.call(te, [arg(1)])
    want = S3.alg.eq(r_commit(h3, gs3, m3, bf3, "N"), self_el)
    got = S3.alg.nb(S3.eng.tobdd(r3)) if r3 is not None else None
    if got is not None and got == want and want not in (0, 1):
        rep.ok("open-exact", "Commitment::verify_opening", sample="accepts iff " + S3.show(r3))
    else:
        rep.fail("open-exact", "Commitment::verify_opening",
                 "verify_opening's acceptance condition is not exactly `R_commit(params; msg, bf) == self`: %s" % (S3.show(r3) if r3 else None),
                 site=vo.loc())

    # ---- rule 3: parameter wiring
    S4 = Session(prog)
    pv = S4.eval(fg)
    h4, gs4 = roles_params(S4, prog, pv)
    if S4.same(h4, arg(1)) and S4.same(gs4, arg(2)):
        rep.ok("params-wiring", "from_generators", sample="h() = arg h, gs() = arg gs")
    else:
        rep.fail("params-wiring", "from_generators", "from_generators(h, gs) followed by h()/gs() does not return (h, gs): h()=%s gs()=%s" % (
            S4.show(h4), S4.show(gs4)), site=fg.loc())
    # to_pedersen_parameters of a public key: (g1, y1s) for G1, (g2, y2s) for G2 -- roles from key generation
    from .keyroles import public_key_roles
    roles = public_key_roles(rep)
    tpp = [b for b in trait_method_impls(prog, TOPP, "to_pedersen_parameters")
           if strip_refs(b.desc["self_ty"])[0] == "adt" and strip_refs(b.desc["self_ty"])[1] == PK]
    rep.floor("ToPedersenParameters impls for PublicKey", len(tpp), 2)
    if roles:
        seen = set()
        for b in tpp:
            rep.fn(b)
            S5 = Session(prog)
            pv5 = S5.eval(b)
            h5, gs5 = roles_params(S5, prog, pv5)
            pk = arg(1)
            opts = {"G1": (roles["g1"], roles["y1s"]), "G2": (roles["g2"], roles["y2s"])}
            hit = None
            for gname, (hi, gi) in opts.items():
                if S5.same(h5, fld(pk, hi)) and S5.same(gs5, fld(pk, gi)):
                    hit = gname
            # which group does this impl claim?
            ret_t = b.locals[0]
            claimed = "G1" if "G1Projective" in ty_str(ret_t) else ("G2" if "G2Projective" in ty_str(ret_t) else "?")
            seen.add(claimed)
            if hit == claimed:
                rep.ok("params-wiring", "to_pedersen_parameters<%s>" % claimed, sample="h = pk.%s-generator, gs = pk.Y-vector of %s" % (claimed, claimed))
            else:
                rep.fail("params-wiring", "to_pedersen_parameters<%s>" % claimed,
                         "PublicKey::to_pedersen_parameters for %s does not return (generator, Y-vector) of that group: h=%s gs=%s" % (
                             claimed, S5.show(h5), S5.show(gs5)), site=b.loc())
    rep.assumptions += ["binding and hiding of Pedersen commitments (discrete-log assumption) are not decided",
                        "additivity follows from commit-exact (the map is a linear form); not separately checked"]
