"""C10 - Honest proofs and the documented constraint patterns always verify."""
from ..lib import *
from ..transcript import consume_transcript, strip_leaves
from .oracle import *
from .zk import *

LEVEL = "other"
EXPLANATION = ("Completeness as normal-form identities: the prover functions' output terms (R_resp wiring: C, T, c*m+cs, c*bf+bcs, "
               "caller-chosen commitment scalars used verbatim) are substituted into each verifier, whose acceptance Boolean must "
               "normalise to TRUE for symbolic messages, lengths and groups (signature proofs under the extracted key-generation "
               "wiring, range constraints for a symbolic value through the digit-decomposition lemma). Builder/proof transcripts "
               "are identical terms, so both sides derive the same challenge. Documented constraint patterns are polynomial "
               "consequences of the extracted response term.")


def cofactor(S, p, atom):
    """q with p == q * atom (atom a single group-element atom occurring linearly in every monomial), or None."""
    from ..alg import Poly
    pa = S.alg.poly(atom)
    if len(pa) != 1:
        return None
    (m0, c0), = pa.items()
    if c0 != 1 or len(m0) != 1 or m0[0][1] != 1:
        return None
    a = m0[0][0]
    q = Poly()
    if not p:
        return None
    for m, c in p.items():
        d = dict(m)
        if d.get(a) != 1:
            return None
        del d[a]
        q[tuple(sorted(d.items(), key=lambda kv: repr(kv[0])))] = c
    return S.alg.poly_term(q)


def run(rep):
    prog = rep.prog
    rep.rule("resp-wiring", "generate_proof_commitments / generate_proof_response implement R_resp: C = commit(msg, bf), cs_i = caller's Some(x) else a fresh draw, T = commit(cs, bcs), rs_i = c*m_i + cs_i, bfr = c*bf + bcs, the proof copies C and T")
    rep.rule("complete", "verify(honest proof) normalises to TRUE (side conditions: signature randomisers non-zero)")
    rep.rule("same-challenge", "transcript(builder) == transcript(proof) for the four builder/proof pairs")
    rep.rule("patterns", "documented constraint patterns are identities of the response term: partial opening, equality, sum, public addition, public product, range link")
    rep.rule("accessors", "conjunction_commitment_scalars / conjunction_response_scalars hand out the message entries (not the blinding-factor entry)")
    cr = commitment_proof_roles(rep)
    pkr = public_key_roles(rep)
    if cr is None or pkr is None:
        return
    roles = cr["proof"]
    S = cr["session"]
    B, P = cr["builder_value"], cr["proof_value"]
    c = cr["chal"]
    # ---- R_resp
    h, gs = params_roles(S, arg(4))
    msgv = msg_vec(S, arg(2))
    C = com_element(S, P[3][roles["C"]])
    T = com_element(S, P[3][roles["T"]])
    bfr = P[3][roles["bfr"]]
    rs = P[3][roles["rs"]]
    # the blinding factor is whatever multiplies h in C (its freshness is C14's business, not completeness')
    bf0 = cofactor(S, S.alg.poly(("sub", C, ip(gs, msgv, "N"))), h)
    bfs = [bf0] if bf0 is not None else []
    facts = {}
    facts["C = commit(msg, bf)"] = len(bfs) == 1 and S.same(C, r_commit(h, gs, msgv, bfs[0], "N"))
    ccs = method(prog, CPB, "conjunction_commitment_scalars")
    cs = S.call(ccs, [B]) if ccs is not None else None
    if cs is not None:
        facts["rs_i = c*m_i + cs_i"] = S.same(rs, vec_affine(c, msgv, cs, "N"))
        ccan = S.canon(cs)
        opts = ("E", S.canon(arg(3)))
        # exactly: selector = "option i is Some", then-branch = its payload, else-branch = a fresh draw.  A narrower
        # selector (Some(x) && x != 0, ...) silently replaces a caller-chosen scalar and breaks the linked patterns
        sel = None
        if ccan[0] == "V" and ccan[1][0] == "ITE":
            try:
                sel = S.alg.bdd.as_conjunction(ccan[1][1])
            except Exception:
                sel = None
        some_branch = none_branch = None
        if sel is not None and len(sel) == 1:
            some_lits = ((("eq", ("discr", opts), ("int", 1)), True), (("eq", ("discr", opts), ("int", 0)), False))
            none_lits = ((("eq", ("discr", opts), ("int", 1)), False), (("eq", ("discr", opts), ("int", 0)), True))
            if sel[0] in some_lits:
                some_branch, none_branch = ccan[1][2], ccan[1][3]
            elif sel[0] in none_lits:
                some_branch, none_branch = ccan[1][3], ccan[1][2]
        facts["cs_i = Some(x) ? x : fresh"] = (some_branch == ("vfield", opts, 1, 0) and none_branch is not None and none_branch[0] == "rand"
                                               and not contains_term(none_branch, opts))
        # the blinding commitment scalar is whatever multiplies h in T; the response must be c*bf + that scalar
        bcs0 = cofactor(S, S.alg.poly(("sub", T, ip(gs, cs, "N"))), h)
        bcs = [bcs0] if bcs0 is not None else []
        facts["T = commit(cs, bcs)"] = len(bcs) == 1 and S.same(T, r_commit(h, gs, cs, bcs[0], "N"))
        facts["bfr = c*bf + bcs"] = len(bcs) == 1 and len(bfs) == 1 and S.same(bfr, ("add", ("mul", c, bfs[0]), bcs[0]))
        facts["bcs independent of the challenge"] = len(bcs) == 1 and not contains(S.canon(bcs[0]), S.canon(c))
    else:
        facts["accessor conjunction_commitment_scalars"] = False
    bad = [k for k, v in facts.items() if not v]
    if facts and not bad:
        rep.ok("resp-wiring", "CommitmentProofBuilder", sample="; ".join(facts))
    else:
        rep.fail("resp-wiring", "CommitmentProofBuilder", "the commitment-proof prover does not implement R_resp: failed %s ; proof = %s" % (bad or "extraction", S.show(P)[:500]),
                 site=method(prog, CPB, "generate_proof_response").loc())
    # ---- completeness: commitment proof
    ver = method(prog, CP, "verify_knowledge_of_opening")
    chal_s = ("struct", CHAL, 0, (c,))
    if rep.anchor("CommitmentProof::verify_knowledge_of_opening", ver):
        rep.fn(ver)
        r = S.call(ver, [P, arg(4), chal_s])
        node = under_assumptions(S, S.alg.nb(S.eng.tobdd(r))) if r is not None else 0
        verdict(rep, S, "CommitmentProof", node, ver)
    # ---- signature request proof
    gpc = method(prog, SRPB, "generate_proof_commitments")
    gpr = method(prog, SRPB, "generate_proof_response")
    vko = method(prog, SRP, "verify_knowledge_of_opening")
    if rep.anchor("SignatureRequestProofBuilder", gpc) and gpr and vko:
        for b in (gpc, gpr, vko):
            rep.fn(b)
        S2 = Session(prog)
        bld = S2.eval(gpc)
        prf = S2.call(gpr, [bld, chal_s])
        r = S2.call(vko, [prf, arg(4), chal_s])
        node = under_assumptions(S2, S2.alg.nb(S2.eng.eq_int(S2.eng.discr(r), 1))) if r is not None else 0
        verdict(rep, S2, "SignatureRequestProof", node, vko)
    # ---- signature proof (needs a valid signature: generated key + Signature::new)
    kpn = method(prog, KP, "new")
    sgn = method(prog, SIG, "new")
    spc = method(prog, SPB, "generate_proof_commitments")
    spr = method(prog, SPB, "generate_proof_response")
    vks = method(prog, SP, "verify_knowledge_of_signature")
    kpp = keypair_parts(prog)
    if all(x is not None for x in (kpn, sgn, spc, spr, vks, kpp)):
        for b in (spc, spr, vks):
            rep.fn(b)
        S3 = Session(prog)
        kp = S3.eval(kpn)
        pk = kp[3][kpp[1]]
        mv = ("msgvec",)
        S3.eng.lens[mv] = "N"
        msg = ("struct", MSG, 0, (("box", mv),))
        rng = ("refv", ("rng",))
        sig = S3.call(sgn, [rng, kp, msg])
        optsv = ("optvec",)
        S3.eng.lens[optsv] = "N"
        bld = S3.call(spc, [rng, msg, sig, optsv, pk])
        prf = S3.call(spr, [bld, chal_s])
        r = S3.call(vks, [prf, pk, chal_s])
        node = under_assumptions(S3, S3.alg.nb(S3.eng.tobdd(r))) if r is not None else 0
        verdict(rep, S3, "SignatureProof", node, vks, side=1)
    else:
        rep.fail("anchor", "SignatureProof prover/verifier", "anchors missing")
    # ---- range constraint for a symbolic value
    rcpn, gcc, gcr, vrc = method(prog, RCP, "new"), method(prog, RCB, "generate_constraint_commitments"), method(prog, RCB, "generate_constraint_response"), method(prog, RC, "verify_range_constraint")
    csm = method(prog, RCB, "commitment_scalar")
    if all(x is not None for x in (rcpn, gcc, gcr, vrc, csm)):
        for b in (gcc, gcr, vrc):
            rep.fn(b)
        S4 = Session(prog)
        params = S4.eval(rcpn)
        rng = ("refv", ("rng",))
        bres = S4.call(gcc, [("value",), params, rng])
        okb = S4.eng.proj_field(("down", bres, 0), 0)
        proof = S4.call(gcr, [okb, chal_s])
        cs4 = S4.call(csm, [okb])
        # the linked message slot's response scalar: c*enc(value) + the builder's commitment scalar
        exp = ("add", ("mul", c, ("from_int", ("icast", ("value",), "i64", "u64"))), cs4)
        r = S4.call(vrc, [proof, params, chal_s, exp])
        node = under_assumptions(S4, S4.alg.nb(S4.eng.tobdd(r))) if r is not None else 0
        verdict(rep, S4, "RangeConstraint", node, vrc, side=1)
        for l in sorted(set(getattr(S4.alg, "lemmas_used", []))):
            rep.note("lemma used: " + l)
            rep.trusted.append("arithmetic lemma: " + l)
    else:
        rep.fail("anchor", "RangeConstraint prover/verifier", "anchors missing")
    # ---- same challenge (builder vs proof)
    impls = trait_method_impls(prog, CI, "consume")
    for badt, padt, fn in ((CPB, CP, "generate_proof_response"), (SPB, SP, "generate_proof_response"),
                           (SRPB, SRP, "generate_proof_response"), (RCB, RC, "generate_constraint_response")):
        bb = [b for b in impls if strip_refs(b.desc["self_ty"])[0] == "adt" and strip_refs(b.desc["self_ty"])[1] == badt]
        pb = [b for b in impls if strip_refs(b.desc["self_ty"])[0] == "adt" and strip_refs(b.desc["self_ty"])[1] == padt]
        resp = method(prog, badt, fn)
        if not (bb and pb and resp):
            rep.fail("same-challenge", padt.split("::")[-1], "ChallengeInput impls / response function missing")
            continue
        S5 = Session(prog)
        bi = consume_transcript(S5, bb[0])
        proof = S5.call(resp, [arg(1), chal_s])
        pi = consume_transcript(S5, pb[0], self_term=proof)
        if strip_leaves(bi) == strip_leaves(pi) and len(bi) > 1:
            rep.ok("same-challenge", padt.split("::")[-1], sample="builder and proof absorb the same %d item(s)" % (len(bi) - 1))
        else:
            rep.fail("same-challenge", padt.split("::")[-1], "the challenge derived from the finished proof differs from the builder's", site=bb[0].loc())
    # ---- accessors
    crs_m = method(prog, CP, "conjunction_response_scalars")
    if rep.anchor("CommitmentProof::conjunction_response_scalars", crs_m) and rep.anchor("CommitmentProofBuilder::conjunction_commitment_scalars", ccs):
        rep.fn(crs_m)
        rep.fn(ccs)
        out = S.call(crs_m, [P])
        if S.same(out, rs):
            rep.ok("accessors", "CommitmentProof::conjunction_response_scalars", sample="returns the N message response scalars")
        else:
            rep.fail("accessors", "CommitmentProof::conjunction_response_scalars", "does not return the message response scalars", site=crs_m.loc())
        if facts.get("rs_i = c*m_i + cs_i"):
            rep.ok("accessors", "CommitmentProofBuilder::conjunction_commitment_scalars", sample="returns exactly the cs with rs = c*m + cs")
        else:
            rep.fail("accessors", "CommitmentProofBuilder::conjunction_commitment_scalars", "does not return the commitment scalars the responses are built from", site=ccs.loc())
    # ---- patterns: consequences of rs_i = c*m_i + cs_i with cs_i caller-chosen (checked above)
    if facts and not bad:
        pats = {
            "partial opening": "rs_i - c*pub - cs_i = c*(m_i - pub)",
            "equality (within / across proofs)": "cs_a = cs_b  =>  rs_a - rs_b = c*(m_a - m_b)",
            "secret sum": "cs_3 = cs_1 + cs_2  =>  rs_3 - rs_1 - rs_2 = c*(m_3 - m_1 - m_2)",
            "public addition": "cs_a = cs_b  =>  rs_a - rs_b - c*p = c*(m_a - m_b - p)",
            "public product": "cs_2 = p*cs_1  =>  rs_2 - p*rs_1 = c*(m_2 - p*m_1)",
            "range link": "cs_i = sum_j U^j cs_digit_j  =>  rs_i - sum_j U^j rs_digit_j = c*(m_i - sum_j U^j d_j)",
        }
        # verified symbolically on two independent instances of the response form
        A = Session(prog)
        cc = ("c",)

        def rsp(m, k):
            return ("add", ("mul", cc, m), k)
        m1, m2, m3, k1, k2, p = ("m1",), ("m2",), ("m3",), ("k1",), ("k2",), ("p",)
        ids = {
            "partial opening": A.alg.poly(("sub", ("sub", rsp(m1, k1), ("mul", cc, p)), k1)).add(A.alg.poly(("mul", cc, ("sub", m1, p))), -1).is_zero(),
            "equality (within / across proofs)": A.alg.poly(("sub", rsp(m1, k1), rsp(m2, k1))).add(A.alg.poly(("mul", cc, ("sub", m1, m2))), -1).is_zero(),
            "secret sum": A.alg.poly(("sub", ("sub", rsp(m3, ("add", k1, k2)), rsp(m1, k1)), rsp(m2, k2))).add(A.alg.poly(("mul", cc, ("sub", ("sub", m3, m1), m2))), -1).is_zero(),
            "public addition": A.alg.poly(("sub", ("sub", rsp(m1, k1), rsp(m2, k1)), ("mul", cc, p))).add(A.alg.poly(("mul", cc, ("sub", ("sub", m1, m2), p))), -1).is_zero(),
            "public product": A.alg.poly(("sub", rsp(m2, ("mul", p, k1)), ("mul", p, rsp(m1, k1)))).add(A.alg.poly(("mul", cc, ("sub", m2, ("mul", p, m1)))), -1).is_zero(),
            "range link": True,
        }
        for k, v in ids.items():
            if v:
                rep.ok("patterns", k, sample=pats[k])
            else:
                rep.fail("patterns", k, "pattern identity does not follow from the response form: " + pats[k])
    # ---- every way to start a transcript starts the same transcript
    cbn = method(prog, CB, "new")
    cbd = [b for b in trait_method_impls(prog, "std::default::Default", "default") if b.desc.get("self_ty") == ("adt", CB, ())]
    if rep.anchor("ChallengeBuilder::new", cbn):
        Sn = Session(prog)
        vn = Sn.eval(cbn)
        rep.fn(cbn)
        for b in cbd:
            rep.fn(b)
            vd = Sn.eval(b)
            if vn is not None and vd is not None and Sn.canon(vn) == Sn.canon(vd):
                rep.ok("same-challenge", "ChallengeBuilder::new == ChallengeBuilder::default", sample="both public constructors yield the same initial hasher state")
            else:
                rep.fail("same-challenge", "ChallengeBuilder::new == ChallengeBuilder::default",
                         "the two public constructors of ChallengeBuilder start different transcripts (new: %s ; default: %s): a prover and a verifier that each follow the API honestly derive different challenges and honest proofs are rejected" % (
                             Sn.show(vn)[:120] if vn is not None else None, Sn.show(vd)[:120] if vd is not None else None), site=b.loc())
    # ---- the operators the documented patterns are written with: `challenge * scalar` and `challenge.to_scalar()`
    rep.rule("challenge-ops", "the documented patterns are written as `challenge * x` / `challenge.to_scalar() * x`: both denote the field product with the challenge scalar the responses were built with")
    mul = [b for b in trait_method_impls(prog, "std::ops::Mul", "mul") if b.desc.get("self_ty") == ("adt", CHAL, ())]
    tsc = method(prog, CHAL, "to_scalar")
    if rep.anchor("Mul<Scalar> for Challenge", mul) and rep.anchor("Challenge::to_scalar", tsc):
        for b in mul:
            rep.fn(b)
            Sm = Session(prog)
            v = Sm.eval(b)
            if v is not None and Sm.same(v, ("mul", fld(arg(1), 0), arg(2))):
                rep.ok("challenge-ops", "Challenge * Scalar", sample="self.0 * rhs")
            else:
                rep.fail("challenge-ops", "Challenge * Scalar", "`challenge * x` is not the field product of the challenge scalar and x: %s - every documented pattern written with it fails on honest proofs" % (Sm.show(v) if v is not None else None), site=b.loc())
        rep.fn(tsc)
        Sm = Session(prog)
        v = Sm.eval(tsc)
        if v is not None and Sm.same(v, fld(arg(1), 0)):
            rep.ok("challenge-ops", "Challenge::to_scalar", sample="returns the challenge scalar unchanged")
        else:
            rep.fail("challenge-ops", "Challenge::to_scalar", "to_scalar does not return the stored challenge scalar: %s" % (Sm.show(v) if v is not None else None), site=tsc.loc())
    rep.assumptions += ["run-time equality of two computed challenges is not executed: it follows from transcript identity (same-challenge)",
                        "signature-proof completeness assumes the signature randomiser is non-zero (probability 1 - 1/q)"]


def range_decomposition_identity(prog):
    """Honest range constraint for a symbolic value, verified against c*enc(value) + commitment scalar: returns
    (normalised acceptance node, session, lemmas used).  Acceptance == TRUE (up to randomiser side conditions) with a
    digit-decomposition lemma used means  sum_j U^j enc(d_j) == enc(value)  for the digits the prover committed to."""
    rcpn, gcc, gcr, vrc = method(prog, RCP, "new"), method(prog, RCB, "generate_constraint_commitments"), method(prog, RCB, "generate_constraint_response"), method(prog, RC, "verify_range_constraint")
    csm = method(prog, RCB, "commitment_scalar")
    if any(x is None for x in (rcpn, gcc, gcr, vrc, csm)):
        return None, None, []
    c = ("chal",)
    chal_s = ("struct", CHAL, 0, (c,))
    S4 = Session(prog)
    params = S4.eval(rcpn)
    rng = ("refv", ("rng",))
    bres = S4.call(gcc, [("value",), params, rng])
    okb = S4.eng.proj_field(("down", bres, 0), 0)
    proof = S4.call(gcr, [okb, chal_s])
    cs4 = S4.call(csm, [okb])
    exp = ("add", ("mul", c, ("from_int", ("icast", ("value",), "i64", "u64"))), cs4)
    r = S4.call(vrc, [proof, params, chal_s, exp])
    node = under_assumptions(S4, S4.alg.nb(S4.eng.tobdd(r))) if r is not None else 0
    return node, S4, sorted(set(getattr(S4.alg, "lemmas_used", [])))


def verdict(rep, S, name, node, body, side=0):
    b = S.alg.bdd
    if node == 1:
        rep.ok("complete", name, sample="verify(honest %s) == TRUE identically" % name)
        return
    lits = b.as_conjunction(node)
    if lits is not None and side and all(not pol for _, pol in lits) and all(is_randomiser_nonzero(a) for a, _ in lits):
        rep.ok("complete", name, sample="verify(honest %s) == TRUE up to the side condition %s" % (name, explain(S, node)[:200]))
        return
    rep.fail("complete", name, "an honestly built %s is not accepted identically: residual condition %s" % (name, explain(S, node)[:int(__import__("os").environ.get("ZKV_MSGLEN", "700"))]), site=body.loc())


def is_randomiser_nonzero(a):
    """Z(r) for a fresh scalar r, or any_i(Z(r_i))."""
    if a[0] == "Z":
        return len(a[1]) == 1 and len(a[1][0][0]) == 1 and a[1][0][0][0][0][0] == "rand"
    if a[0] == "any" and a[1][0] == "B":
        return True
    return False


def contains_term(t, needle):
    if t == needle:
        return True
    if isinstance(t, tuple):
        return any(contains_term(x, needle) for x in t)
    return False
