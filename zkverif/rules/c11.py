"""C11 - Proof verifiers accept exactly the Schnorr and pairing relations."""
from ..lib import *
from .oracle import *

LEVEL = "other"
EXPLANATION = ("Exactness by value reconstruction: the acceptance Boolean of each proof verifier (sub-verifiers inlined "
               "down to the inner product) is normalised (polynomial / linear-form / pairing-multiset atoms, BDD) and "
               "compared for identity with the reference relations R_cp, R_srp, R_sp built over role-bound atoms "
               "(roles come from the prover's wiring and public accessors). Symbolic G and N: one analysis covers both "
               "groups and every tuple length. Both directions: no conjunct missing, none extra.")


def single_field_of_type(prog, adt, tpath):
    r = [i for i, f in enumerate(adt_fields(prog, adt)) if f["t"][0] == "adt" and f["t"][1] == tpath]
    return r[0] if len(r) == 1 else None


def cp_atoms(S, cpv, roles):
    C = com_element(S, fld(cpv, roles["C"]))
    T = com_element(S, fld(cpv, roles["T"]))
    return C, T, fld(cpv, roles["bfr"]), fld(cpv, roles["rs"])


def run(rep):
    prog = rep.prog
    from .c15 import wire_group_membership
    wire_group_membership(rep)
    rep.rule("cp-exact", "CommitmentProof::verify_knowledge_of_opening accepts iff bfr*h + <gs,rs> == T + c*C")
    rep.rule("srp-exact", "SignatureRequestProof::verify_knowledge_of_opening returns Some iff R_cp under (g1, Y1..YN) of the argument key, and the payload is the proof's commitment C")
    rep.rule("sp-exact", "SignatureProof::verify_knowledge_of_signature accepts iff sigma1' != 1 and R_cp under (g2, Y~) and e(sigma1', X~ + C) e(sigma2', -g~) = 1")
    rep.rule("identity-signature", "derived fact: with sigma1'=sigma2'=identity the pairing product is trivially 1, so the sigma1' != identity conjunct is necessary")
    cr = commitment_proof_roles(rep)
    pkr = public_key_roles(rep)
    if cr is None or pkr is None:
        return
    roles = cr["proof"]
    check_cp(rep, roles)
    check_srp(rep, roles, pkr)
    check_sp(rep, roles, pkr)
    rep.assumptions += ["special soundness of Schnorr proofs / knowledge extraction is a paper argument over the relation shown here",
                        "bls12_381 pairing, group and field operations follow their documented algebra (model table)"]


def check_cp(rep, roles):
    prog = rep.prog
    v = method(prog, CP, "verify_knowledge_of_opening")
    if rep.anchor("CommitmentProof::verify_knowledge_of_opening", v):
        rep.fn(v)
        S = Session(prog)
        ret = S.eval(v)
        h, gs = params_roles(S, arg(2))
        c = chal_scalar(S, arg(3))
        C, T, bfr, rs = cp_atoms(S, arg(1), roles)
        want = R_cp(S, h, gs, c, C, T, bfr, rs)
        got = S.alg.nb(S.eng.tobdd(ret)) if ret is not None else None
        if got == want and want not in (0, 1):
            rep.ok("cp-exact", "CommitmentProof::verify_knowledge_of_opening", sample="accepts iff " + S.show(ret))
        else:
            rep.fail("cp-exact", "CommitmentProof::verify_knowledge_of_opening",
                     "acceptance condition differs from R_cp. code: %s ; reference: %s" % (
                         explain(S, got) if got is not None else None, explain(S, want)), site=v.loc())


def check_srp(rep, roles, pkr):
    prog = rep.prog
    v = method(prog, SRP, "verify_knowledge_of_opening")
    cpi = single_field_of_type(prog, SRP, CP)
    if rep.anchor("SignatureRequestProof::verify_knowledge_of_opening", v) and rep.anchor("SignatureRequestProof.<CommitmentProof field>", cpi):
        rep.fn(v)
        S = Session(prog)
        ret = S.eval(v)
        pk = arg(2)
        c = chal_scalar(S, arg(3))
        cpv = fld(arg(1), cpi)
        C, T, bfr, rs = cp_atoms(S, cpv, roles)
        want = R_cp(S, fld(pk, pkr["g1"]), fld(pk, pkr["y1s"]), c, C, T, bfr, rs)
        is_some = S.alg.nb(S.eng.eq_int(S.eng.discr(ret), 1)) if ret is not None else None
        if is_some == want and want not in (0, 1):
            rep.ok("srp-exact", "accept-condition", sample="Some iff " + explain(S, want))
        else:
            rep.fail("srp-exact", "accept-condition", "returns Some under a condition other than R_cp(g1, Y; proof): code %s ; reference %s" % (
                explain(S, is_some) if is_some is not None else None, explain(S, want)), site=v.loc())
        pay = S.eng.proj_field(("down", ret, 1), 0) if ret is not None else None
        okp = False
        if pay is not None and pay[0] == "struct" and pay[1] == VBM and len(pay[3]) == 1:
            okp = S.same(com_element(S, pay[3][0]), C)
        if okp:
            rep.ok("srp-exact", "payload", sample="payload = VerifiedBlindedMessage(proof commitment C)")
        else:
            rep.fail("srp-exact", "payload", "the blind-signable value returned on acceptance is not the commitment the proof is about: %s" % (
                S.show(pay) if pay is not None else None), site=v.loc())


def check_sp(rep, roles, pkr):
    prog = rep.prog
    v = method(prog, SP, "verify_knowledge_of_signature")
    cpi = single_field_of_type(prog, SP, CP)
    bsi = single_field_of_type(prog, SP, BSIG)
    s1m, s2m = method(prog, BSIG, "sigma1"), method(prog, BSIG, "sigma2")
    if (rep.anchor("SignatureProof::verify_knowledge_of_signature", v) and rep.anchor("SignatureProof.<CommitmentProof field>", cpi)
            and rep.anchor("SignatureProof.<BlindedSignature field>", bsi) and rep.anchor("BlindedSignature::sigma1", s1m)
            and rep.anchor("BlindedSignature::sigma2", s2m)):
        rep.fn(v)
        S = Session(prog)
        ret = S.eval(v)
        pk = arg(2)
        c = chal_scalar(S, arg(3))
        cpv = fld(arg(1), cpi)
        C, T, bfr, rs = cp_atoms(S, cpv, roles)
        bs = fld(arg(1), bsi)
        s1 = S.call(s1m, [bs])
        s2 = S.call(s2m, [bs])
        want = R_sp(S, pk, pkr, c, s1, s2, C, T, bfr, rs)
        got = S.alg.nb(S.eng.tobdd(ret)) if ret is not None else None
        if got == want and want not in (0, 1):
            rep.ok("sp-exact", "SignatureProof::verify_knowledge_of_signature", sample="accepts iff " + explain(S, want))
            lits = S.alg.bdd.as_conjunction(want) or []
            rep.ok("sp-exact", "conjunct-count=%d" % len(lits), sample="%d conjuncts" % len(lits), nontrivial=False)
        else:
            rep.fail("sp-exact", "SignatureProof::verify_knowledge_of_signature",
                     "acceptance condition differs from R_sp. code: %s ; reference: %s" % (
                         explain(S, got) if got is not None else None, explain(S, want)), site=v.loc())
        # derived fact: all-identity signature satisfies the pairing product for every C
        triv = PP(S, [(("gzero",), ("add", fld(pk, pkr["x2"]), C)), (("gzero",), ("neg", fld(pk, pkr["g2"])))]) == 1
        if triv:
            rep.ok("identity-signature", "pairing-product-trivial-at-identity",
                   sample="PP{(0, X~+C),(0,-g~)} has zero first components: holds for every C; rejected only by the sigma1' != identity conjunct")
