"""C12 - Challenges bind every first-message element and match for prover and verifier."""
from ..lib import *
from ..transcript import *
from .oracle import *

LEVEL = "other"
EXPLANATION = ("Transcript coverage by value reconstruction: the hasher term of every ChallengeInput::consume body and of the "
               "zkAbacus verifiers is reconstructed (loops summarised as whole-collection `each` items), and compared with the "
               "atoms of each type enumerated from its wire form (type table). An atom is a response iff, in the prover's "
               "output term, it depends on the challenge digest; every other atom must be absorbed before finish(). "
               "Builder/proof and prover/verifier agreement are term identities between the two transcripts.")

ZPROOFS = ZA + "::proofs"
EST = ZPROOFS + "::EstablishProof"
PAY = ZPROOFS + "::PayProof"


def fmt_items(S, items):
    out = []
    for it in items:
        if it[0] == "item":
            out.append(S.show(it[1]))
        elif it[0] in ("each", "each?"):
            out.append("%s %s {%s}" % (it[0], [S.show(l) for l in it[1]], "; ".join(fmt_items(S, it[2]))))
        else:
            out.append(str(it)[:80])
    return out


def response_leaf(path, roles):
    """Is this wire atom a Schnorr response (by the prover-wiring classification of CommitmentProof)?"""
    for step in path:
        if step[0] == CP and step[1] in (roles["bfr"], roles["rs"]):
            return True
    return False


def explicit_cover(S, absorbed, term, lt):
    """A fixed-size array atom `xs[i]` is also covered when every element xs[0] .. xs[n-1] is absorbed individually
    (a statically known small array iterated by an index / unrolled loop)."""
    if term[0] != "E" or lt[0] != "array" or not isinstance(lt[2], int) or not 0 < lt[2] <= 16:
        return False
    return all(S.canon(("bytes", ("at", term[1], ("int", k)))) in absorbed for k in range(lt[2]))


def run(rep):
    prog = rep.prog
    rep.rule("impl-coverage", "every ChallengeInput impl absorbs every atom of its type (proof types: every first-message atom), arrays by whole-array iteration")
    rep.rule("builder-proof", "transcript(builder) == transcript(proof obtained from that builder), item by item, and absorbs no secret")
    rep.rule("sink", "consume_bytes/with_bytes absorb exactly their argument; with/consume dispatch to the object's impl on the same builder; finish maps all 32 digest bytes (4 disjoint LE windows) into the scalar; new starts from the empty hash")
    rep.rule("fs-zkabacus", "every non-response atom of EstablishProof / PayProof (enumerated from the wire form) is absorbed by verify before finish()")
    rep.rule("prover-verifier", "the challenge term derived in new() equals the one derived in verify() under the honest correspondence (same atoms, same order)")
    cr = commitment_proof_roles(rep)
    if cr is None:
        return
    roles = cr["proof"]
    impls = trait_method_impls(prog, CI, "consume")
    rep.floor("ChallengeInput impls", len(impls), 21)
    by_type = {}
    # ---- rule 2: per-impl coverage
    for b in impls:
        rep.fn(b)
        st = b.desc["self_ty"]
        name = ty_str(st)
        S = Session(prog)
        try:
            items = consume_transcript(S, b)
        except Exception as e:
            rep.fail("impl-coverage", name, "cannot reconstruct the transcript of %s: %r" % (b.path, e), site=b.loc())
            continue
        by_type[name] = (S, items, b)
        if st[0] == "ref":
            # &T forwards to T
            fin = S.last_state.store.get(S.eng.arg_cells.get(("arg", 2)))
            okf = fin is not None and fin[0] == "mutated" and fin[1].endswith("ChallengeInput::consume")
            (rep.ok if okf else rep.fail)("impl-coverage", name, *(([], ) if False else ()),
                                           **({"sample": "forwards to <T as ChallengeInput>::consume on the same builder"} if okf else
                                              {"msg": "&T impl does not forward to T::consume", "site": b.loc()}))
            continue
        if not items or items[0][0] != "base" or items[0][1] != S.canon(fld(arg(2), 0)):
            rep.fail("impl-coverage", name, "%s does not extend the builder it was given (hasher replaced or reset)" % b.path, site=b.loc())
            continue
        absorbed = set(flat_atoms(items))
        bad_loops = [it for it in items if it[0] in ("each?", "loop?")]
        if bad_loops:
            rep.fail("impl-coverage", name + "/iteration", "%s absorbs a collection through a partial / adapted iteration: %s" % (b.path, fmt_items(S, bad_loops)), site=b.loc())
        is_builder = st[0] == "adt" and st[1].endswith("Builder")
        if is_builder:
            continue   # builders are decided by the builder-proof rule
        missing = []
        n = 0
        for term, lt, path in type_leaves(prog, st, arg(1)):
            if response_leaf(path, roles):
                continue
            n += 1
            want = S.canon(("bytes", term))
            if want not in absorbed and not explicit_cover(S, absorbed, term, lt):
                missing.append(S.show(S.canon(term)) + " : " + ty_str(lt))
        if missing:
            rep.fail("impl-coverage", name, "%s does not absorb atom(s) %s of its own wire form; transcript = %s" % (
                b.path, missing, fmt_items(S, items[1:])), site=b.loc())
        else:
            rep.ok("impl-coverage", name, sample="%d atom(s) absorbed: %s" % (n, fmt_items(S, items[1:])))
    # ---- rule 4: builder / proof agreement
    pairs = [(CPB, CP, "generate_proof_response"), (SPB, SP, "generate_proof_response"),
             (SRPB, SRP, "generate_proof_response"), (RCB, RC, "generate_constraint_response")]
    for badt, padt, fn in pairs:
        bb = [b for b in impls if strip_refs(b.desc["self_ty"])[0] == "adt" and strip_refs(b.desc["self_ty"])[1] == badt]
        pb = [b for b in impls if strip_refs(b.desc["self_ty"])[0] == "adt" and strip_refs(b.desc["self_ty"])[1] == padt]
        resp = method(prog, badt, fn)
        key = padt.split("::")[-1]
        if not (rep.anchor("ChallengeInput for " + badt, bb) and rep.anchor("ChallengeInput for " + padt, pb) and rep.anchor(badt + "::" + fn, resp)):
            continue
        rep.fn(resp)
        S = Session(prog)
        bi = consume_transcript(S, bb[0])
        proof = S.call(resp, [arg(1), ("struct", CHAL, 0, (("chal",),))])
        pi = consume_transcript(S, pb[0], self_term=proof)
        if strip_leaves(bi) == strip_leaves(pi) and len(bi) > 1:
            rep.ok("builder-proof", key, sample="both absorb %s" % fmt_items(S, bi[1:]))
        else:
            rep.fail("builder-proof", key, "builder and finished proof derive different challenges: builder absorbs %s, proof absorbs %s" % (
                fmt_items(S, bi[1:]), fmt_items(S, pi[1:])), site=bb[0].loc())
        # no response / secret may be absorbed on the builder side: everything absorbed must also be a
        # first-message atom of the proof (already implied by equality with the proof transcript, whose
        # atoms were checked against the wire form above)
    # ---- rule 3: sink integrity
    sink(rep)
    # ---- rule 1 for zkAbacus proofs
    from .zk import fs_rule
    fs_rule(rep, "C12")
    rep.assumptions += ["collision resistance of SHA3-256; every absorbed atom has a fixed width (32/48/96 bytes), so the unframed concatenation is injective",
                        "`changes whenever any input changes` is decided as: every atom reaches the hash input"]


def sink(rep):
    prog = rep.prog
    need = {n: method(prog, CB, n) for n in ("new", "consume", "with", "consume_bytes", "with_bytes", "finish")}
    for n, b in need.items():
        if not rep.anchor("ChallengeBuilder::" + n, b):
            return
        rep.fn(b)
    S = Session(prog)
    v = S.eval(need["new"])
    h0 = builder_hasher(S, v) if v is not None else None
    its = hasher_items(S, h0) if h0 is not None else None
    if h0 == ("hash0",):
        rep.ok("sink", "new", sample="hasher = Sha3_256::new()")
    elif its is not None and all(it[0] == "item" for it in its):
        # a constructor without inputs can only absorb constants: a fixed domain-separation prefix binds nothing less
        rep.ok("sink", "new", sample="hasher = Sha3_256::new() followed by a constant prefix (%d item(s))" % len(its))
    else:
        rep.fail("sink", "new", "ChallengeBuilder::new does not start from the empty hash: %s" % (S.show(v) if v else None), site=need["new"].loc())
    S = Session(prog)
    ret, st, fr = S.eng.eval_fn(need["consume_bytes"])
    fin = st.store.get(S.eng.arg_cells[("arg", 1)])
    h = builder_hasher(S, fin)
    if hasher_items(S, h) == [("base", S.canon(fld(arg(1), 0))), ("item", S.canon(arg(2)))]:
        rep.ok("sink", "consume_bytes", sample="hasher' = absorb(hasher, bytes)")
    else:
        rep.fail("sink", "consume_bytes", "consume_bytes does not absorb exactly its argument: %s" % S.show(h), site=need["consume_bytes"].loc())
    S = Session(prog)
    v = S.eval(need["with_bytes"])
    h = builder_hasher(S, v) if v is not None else ("?",)
    if hasher_items(S, h) == [("base", S.canon(fld(arg(1), 0))), ("item", S.canon(arg(2)))]:
        rep.ok("sink", "with_bytes", sample="returns the same builder with hasher' = absorb(hasher, bytes)")
    else:
        rep.fail("sink", "with_bytes", "with_bytes does not absorb exactly its argument: %s" % S.show(h), site=need["with_bytes"].loc())
    for n in ("consume", "with"):
        S = Session(prog)
        ret, st, fr = S.eng.eval_fn(need[n])
        S.last_state = st
        fin = st.store.get(S.eng.arg_cells[("arg", 1)]) if n == "consume" else ret
        okd = (fin is not None and fin[0] == "mutated" and fin[1].endswith("ChallengeInput::consume") and fin[3] == arg(1)
               and fin[4][0] == "call" and fin[4][2][0] == arg(2))
        if okd:
            rep.ok("sink", n, sample="dispatches to <T as ChallengeInput>::consume(object, this builder)")
        else:
            rep.fail("sink", n, "ChallengeBuilder::%s does not hand the same builder to the object's ChallengeInput impl: %s" % (n, S.show(fin) if fin else None),
                     site=need[n].loc())
    S = Session(prog)
    v = S.eval(need["finish"])
    okf = False
    why = ""
    if v is not None and v[0] == "struct" and len(v[3]) == 1 and v[3][0][0] == "from_raw":
        arr = v[3][0][1]
        if arr[0] == "array" and len(arr[1]) == 4:
            wins = []
            for limb in arr[1]:
                if limb[0] == "le_int" and limb[1][0] == "slice_of":
                    src, lo, hi = limb[1][1], limb[1][2], limb[1][3]
                    while src[0] in ("copied", "as_array"):
                        src = src[1]
                    wins.append((src, lo, hi))
            dig = ("digest", fld(arg(1), 0, "hasher"))
            okf = len(wins) == 4 and all(S.same(w[0], dig) for w in wins) and \
                [(w[1], w[2]) for w in wins] == [(("int", 8 * i), ("int", 8 * i + 8)) for i in range(4)]
            why = str([(S.show(w[0]), w[1], w[2]) for w in wins])
    if okf:
        rep.ok("sink", "finish", sample="Scalar::from_raw(le(d[0..8]), le(d[8..16]), le(d[16..24]), le(d[24..32])), d = finalize(hasher)")
    else:
        rep.fail("sink", "finish", "finish() does not map the four disjoint 8-byte windows of the digest of its own hasher into the scalar: %s %s" % (
            S.show(v) if v else None, why), site=need["finish"].loc())
