"""C13 - Range constraints accept exactly values in [0, 2^63) linked to the message."""
from ..lib import *
from ..oblig import discharge
from .oracle import *

LEVEL = "other"
EXPLANATION = ("Value reconstruction of the range prover, verifier, parameter generator and validator with loops summarised "
               "by their recurrences (acc' = acc + w*g(elem), w' = w*k => weighted sum; early-exit loops => any/forall atoms); "
               "exactness of the verifier against R_range; interval discharge of every panic obligation of the prover over all "
               "i64 inputs; evaluated constants U, L with U^L = 2^63.")


def consts(prog):
    out = {}
    for p, r in prog.consts.items():
        if p.startswith(ZC + "::proofs::range::") and "int" in r:
            out[p.split("::")[-1]] = r["int"]
    return out


def run(rep):
    prog = rep.prog
    from .c15 import wire_group_membership
    wire_group_membership(rep)
    rep.rule("constants", "the digit arity U and digit count L evaluated by rustc satisfy U^L = 2^63; array lengths of digit proofs / builders = L, digit signatures = U")
    rep.rule("prover-domain", "generate_constraint_commitments returns Err iff value < 0, and no panic obligation is reachable for any i64 (bounds of the digit-signature lookup by intervals: digit = v % U in [0, U-1])")
    rep.rule("decomposition", "digits are d_j = v_j mod U, v_{j+1} = v_j div U over the whole L-array, starting from v_0 = value")
    rep.rule("verify-exact", "verify_range_constraint accepts iff every digit proof satisfies R_sp under the parameters' own key and challenge AND sum_j U^j * rs_j[0] == expected")
    rep.rule("prover-recurrence", "the prover's commitment scalar is the same weighted sum sum_j U^j * cs_j[0] (sibling of the verifier's recurrence)")
    rep.rule("params-new", "RangeConstraintParameters::new signs exactly Scalar::from(i) for i in 0..U in index order with one key pair whose public half is stored")
    rep.rule("validate-exact", "validate() returns Ok iff for every i the i-th signature satisfies R_ps on (i) under the stored key")
    cs = consts(prog)
    U, L = cs.get("RP_PARAMETER_U"), cs.get("RP_PARAMETER_L")
    gcc = method(prog, RCB, "generate_constraint_commitments")
    vrc = method(prog, RC, "verify_range_constraint")
    new = method(prog, RCP, "new")
    val = method(prog, RCP, "validate")
    for n, b in (("RangeConstraintBuilder::generate_constraint_commitments", gcc), ("RangeConstraint::verify_range_constraint", vrc),
                 ("RangeConstraintParameters::new", new), ("RangeConstraintParameters::validate", val)):
        if not rep.anchor(n, b):
            return
        rep.fn(b)
    # ---- constants
    if U is None or L is None:
        rep.fail("constants", "U,L", "range parameters U / L are not evaluable constants of proofs::range: %s" % cs)
        return
    if U ** L == 2 ** 63 and U >= 2:
        rep.ok("constants", "U^L", sample="U=%d L=%d U^L=2^63" % (U, L))
    else:
        rep.fail("constants", "U^L", "U=%d, L=%d: U^L = %d != 2^63: accepted values are not exactly [0, 2^63)" % (U, L, U ** L))

    def arr_len(adt, elem_adt):
        for f in adt_fields(prog, adt):
            t = f["t"]
            while t[0] == "adt" and t[1].endswith("Box"):
                t = t[2][0]
            if t[0] == "array" and t[1][0] == "adt" and t[1][1] == elem_adt:
                return t[2]
        return None
    lens = {"RangeConstraint.digit_proofs": (arr_len(RC, SP), L), "RangeConstraintBuilder.digit_proof_builders": (arr_len(RCB, SPB), L),
            "RangeConstraintParameters.digit_signatures": (arr_len(RCP, SIG), U)}
    for k, (got, want) in lens.items():
        if got == want:
            rep.ok("constants", k, sample="length %s" % got, nontrivial=False)
        else:
            rep.fail("constants", k, "%s has length %s, expected %s" % (k, got, want))
    pkr = public_key_roles(rep)
    cr = commitment_proof_roles(rep)
    if pkr is None or cr is None:
        return
    roles = cr["proof"]
    # ---- prover
    S = Session(prog)
    ret = S.eval(gcc)
    vtype = gcc.locals[1]
    leaf_types = {arg(1): vtype, arg(2): gcc.locals[2]}
    neg = S.eng.bdd.var(("icmp", "Lt", arg(1), ("int", 0), "i64"))
    is_err = S.eng.eq_int(S.eng.discr(ret), 1) if ret is not None else None
    if is_err == neg:
        rep.ok("prover-domain", "refusal", sample="Err(ValueOutsideRange) iff value < 0")
    else:
        rep.fail("prover-domain", "refusal", "generate_constraint_commitments refuses under %s instead of exactly `value < 0`" % (S.show(("b", is_err)) if is_err is not None else None), site=gcc.loc())
    errp = S.eng.proj_field(("down", ret, 1), 0) if ret is not None else None
    nob = 0
    for ob in S.eng.obligations:
        okd, why, _ = discharge(S, ob, leaf_types)
        nob += 1
        key = "%s@%s" % (ob["kind"], ob["site"][0].split("::")[-1])
        if okd:
            rep.ok("prover-domain", "no-panic:" + key, sample=why)
        else:
            rep.fail("prover-domain", "no-panic:" + key, "reachable panic in the range prover (%s): %s" % (ob["kind"], why),
                     site=prog.bodies[ob["site"][0]].loc(ob.get("ln")))
    for p in S.eng.panics:
        rep.fail("prover-domain", "panic-call:" + str(p["callee"]), "the range prover can reach a diverging call %s" % p["callee"],
                 site=prog.bodies[p["site"][0]].loc(p.get("ln")))
    rep.floor("range prover panic obligations examined", nob, 3)
    # ---- decomposition recurrence
    dec = None
    for uid, info in S.eng.loops.items():
        if info.kind == "iter" and info.src is not None and info.src[0] == "mutrefs":
            dec = info
    okdec = False
    if dec is not None and dec.src[3] == L and not dec.early:
        steps = {c: dec.step[c] for c in dec.cells if dec.step[c] != ("lv", dec.uid, c)}
        vcell = [c for c, st in steps.items() if st[0] == "idiv"]
        acell = [c for c, st in steps.items() if st[0] == "upd_idx"]
        if len(vcell) == 1 and len(acell) == 1:
            v, a = vcell[0], acell[0]
            lvv = ("lv", dec.uid, v)
            okdec = (steps[v] == ("idiv", lvv, ("int", U), "u64") and
                     steps[a] == ("upd_idx", ("lv", dec.uid, a), ("idx", dec.uid), ("irem", lvv, ("int", U), "u64")) and
                     dec.init[v] == ("icast", arg(1), "i64", "u64"))
    how = "for j in 0..L: d_j = v mod U; v = v div U; v_0 = value as u64 (value >= 0)"
    if not okdec:
        # written another way (shift/mask, helper function, ...): decide it by what it must achieve - the digits the
        # prover commits to recombine to the value: sum_j U^j enc(d_j) == enc(value) (polynomial identity of the honest
        # constraint against c*enc(value) + commitment scalar, closed by a recognised digit-decomposition lemma)
        try:
            from .c10 import range_decomposition_identity
            node, S4, lem = range_decomposition_identity(prog)
        except Exception:
            node, S4, lem = 0, None, []
        if S4 is not None and any("digit decomposition" in l for l in lem):
            b4 = S4.alg.bdd
            lits = b4.as_conjunction(node) if node not in (0, 1) else []
            if node == 1 or (lits is not None and all((not pol) and a[0] in ("Z", "any") for a, pol in lits)):
                okdec = True
                how = "the committed digits recombine to the value: " + "; ".join(lem)
                for l in lem:
                    rep.trusted.append("arithmetic lemma: " + l)
    if okdec:
        rep.ok("decomposition", "digits", sample=how)
    else:
        rep.fail("decomposition", "digits", "the digit decomposition loop is not the whole-array (mod U, div U) recurrence starting from the value", site=gcc.loc())
    # ---- prover commitment-scalar recurrence
    okv = S.eng.proj_field(("down", ret, 0), 0) if ret is not None else None
    csm = method(prog, RCB, "commitment_scalar")
    if rep.anchor("RangeConstraintBuilder::commitment_scalar", csm) and okv is not None:
        cs_term = S.canon(S.call(csm, [okv]))
        want_shape = cs_term[0] == "wsum" and cs_term[1] == ("int", 1) and cs_term[2] == ("int", U) and cs_term[3][0] == "V" and cs_term[3][2] == L
        if want_shape:
            rep.ok("prover-recurrence", "commitment_scalar", sample="sum_j %d^j * cs_j over %d digit builders" % (U, L))
        else:
            rep.fail("prover-recurrence", "commitment_scalar", "commitment scalar is not sum_j U^j * cs_j[0] over all L builders: %s" % S.show(cs_term), site=gcc.loc())
    # ---- verifier exactness
    S = Session(prog)
    ret = S.eval(vrc)
    got = S.alg.nb(S.eng.tobdd(ret)) if ret is not None else None
    # oracle
    params = arg(2)
    c = chal_scalar(S, arg(3))
    pkm = method(prog, RCP, "public_key")
    dpi = [i for i, f in enumerate(adt_fields(prog, RC))]
    want = None
    if rep.anchor("RangeConstraintParameters::public_key", pkm) and len(dpi) == 1:
        pk = S.call(pkm, [params])
        dps = S.canon(fld(arg(1), dpi[0]))
        el = ("E", dps)
        cpi = [i for i, f in enumerate(adt_fields(prog, SP)) if f["t"][0] == "adt" and f["t"][1] == CP]
        bsi = [i for i, f in enumerate(adt_fields(prog, SP)) if f["t"][0] == "adt" and f["t"][1] == BSIG]
        if len(cpi) == 1 and len(bsi) == 1:
            cpv = fld(el, cpi[0])
            C = com_element(S, fld(cpv, roles["C"]))
            T = com_element(S, fld(cpv, roles["T"]))
            bfr, rs = fld(cpv, roles["bfr"]), fld(cpv, roles["rs"])
            s1, s2 = bsig_parts(S, fld(el, bsi[0]))
            rsp = R_sp(S, pk, pkr, c, s1, s2, C, T, bfr, rs, n=1)
            b = S.alg.bdd
            all_digits = b.NOT(b.var(("any", ("B", b.NOT(rsp)))))
            rs0 = S.canon(("at", rs, ("int", 0)))
            link = S.alg.zero_atom(S.alg.wsum_poly(("int", 1), ("int", U), S.alg.poly(rs0), L).add(S.alg.poly(arg(4)), -1))
            want = b.AND(all_digits, link)
    if want is not None and got == want and want not in (0, 1):
        rep.ok("verify-exact", "RangeConstraint::verify_range_constraint",
               sample="accepts iff forall j<%d R_sp(params.pk, c; digit_j) and sum_j %d^j rs_j[0] == expected" % (L, U))
    else:
        rep.fail("verify-exact", "RangeConstraint::verify_range_constraint",
                 "acceptance differs from R_range. code: %s ; reference: %s" % (
                     explain(S, got) if got is not None else None, explain(S, want) if want is not None else None), site=vrc.loc())
    params_new(rep, U)
    # ---- validate
    S = Session(prog)
    r = S.eval(val)
    is_ok = S.alg.nb(S.eng.eq_int(S.eng.discr(r), 0)) if r is not None else None
    want = None
    fs = adt_fields(prog, RCP)
    sig_i = [i for i, f in enumerate(fs) if "Signature" in ty_str(f["t"])]
    pk_i = [i for i, f in enumerate(fs) if f["t"][0] == "adt" and f["t"][1] == PK]
    if len(sig_i) == 1 and len(pk_i) == 1:
        sigs = S.canon(fld(arg(1), sig_i[0]))
        el = ("E", sigs)
        a1, a2 = sig_parts(S, el)
        pk = fld(arg(1), pk_i[0])
        m = ("array", (("from_int", ("I",)),))
        rps = R_ps(S, pk, pkr, a1, a2, m, n=1)
        b = S.alg.bdd
        want = b.NOT(b.var(("any", ("B", b.NOT(rps)))))
    if want is not None and is_ok == want and want not in (0, 1):
        rep.ok("validate-exact", "RangeConstraintParameters::validate", sample="Ok iff forall i<%d R_ps(pk; sig_i, (i))" % U)
    else:
        rep.fail("validate-exact", "RangeConstraintParameters::validate", "validate() accepts under %s, reference %s" % (
            explain(S, is_ok) if is_ok is not None else None, explain(S, want) if want is not None else None), site=val.loc())
    rep.assumptions += ["unforgeability of the digit signatures and extractability of each digit proof (cryptography)",
                        "sum_j U^j d_j with d_j in [0,U-1] ranges exactly over [0, U^L - 1] (arithmetic)"]


def params_new(rep, U=None):
    prog = rep.prog
    pkr = public_key_roles(rep)
    new = method(prog, RCP, "new")
    if U is None:
        U = consts(prog).get("RP_PARAMETER_U")
    if pkr is None or not rep.anchor("RangeConstraintParameters::new", new):
        return
    rep.fn(new)
    # ---- parameters
    skr = secret_key_roles(rep)
    kpp = keypair_parts(prog)
    S = Session(prog)
    pv = S.eval(new)
    okn = False
    why = ""
    if pv is not None and pv[0] == "struct" and skr and kpp:
        fs = adt_fields(prog, RCP)
        sig_i = [i for i, f in enumerate(fs) if "Signature" in ty_str(f["t"])]
        pk_i = [i for i, f in enumerate(fs) if f["t"][0] == "adt" and f["t"][1] == PK]
        if len(sig_i) == 1 and len(pk_i) == 1:
            sigs = S.canon(pv[3][sig_i[0]])
            pkv = pv[3][pk_i[0]]
            why = "digit_signatures = %s" % S.show(sigs)[:600]
            if sigs[0] == "V" and sigs[2] == U and sigs[1][0] == "struct" and pkv[0] == "struct":
                sigel = sigs[1]
                a1, a2 = sig_parts(S, sigel)
                # sigma2 == sigma1 * (x + y_0 * i) with i the index, (x, y) the secret half of the stored public key
                g2 = pkv[3][pkr["g2"]]
                x2 = pkv[3][pkr["x2"]]
                y2s = pkv[3][pkr["y2s"]]
                # recover x, y0 from the public key terms: x2 = g2*x, y2s[0] = g2*y0
                px = S.alg.poly(x2)
                xs = [a for a in px.atoms() if a[0] == "rand" and a[1] == "scalar"]
                y0 = S.canon(("at", y2s, ("int", 0)))
                ys = [a for a in S.alg.poly(y0).atoms() if a[0] == "rand" and a[1] == "scalar"]
                if len(xs) == 1 and len(ys) == 1:
                    want2 = ("mul", a1, ("add", xs[0], ("mul", ys[0], ("from_int", ("I",)))))
                    okn = S.same(a2, want2) and S.canon(a1)[0] == "rand" and under_assumptions(S, nonzero(S, a1)) == 1
                    # and the signed digit is the loop index: (I,) above; sigma1 is a fresh non-identity element per digit
    if okn:
        rep.ok("params-new", "RangeConstraintParameters::new", sample="sig_i = (h_i, (x + y*i) h_i) for i in 0..%d, pk = public half of the same key pair" % U)
    else:
        rep.fail("params-new", "RangeConstraintParameters::new", "parameters are not signatures on 0..U-1 in index order under the stored key. %s" % why, site=new.loc())
