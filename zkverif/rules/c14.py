"""C14 - Customer messages reuse no value the merchant has seen and expose no secret."""
from ..lib import *
from .oracle import *
from .zk import *
from .c03 import STAGES, find_structs, fields_of_type, started_roles, sig_of, CSS, CLOSING, LOCKMSG

LEVEL = "other"
EXPLANATION = ("Necessary structural conditions, decided for every input: each atom of every customer-to-merchant message "
               "(enumerated from the wire form of EstablishProof, StartMessage, LockMessage, ClosingMessage) is either a by-design "
               "disclosure or its reconstructed term is masked by randomness drawn inside the same API call (additively for response "
               "scalars and commitments, multiplicatively - every monomial - for re-randomised signatures); no secret held in the "
               "customer state flows to a message unmasked. Equality of run-time values across sessions, hiding and zero knowledge "
               "are not static facts.")

SECRETS_NOTE = "blinding factors, the new state's nonce, revocation secrets and hidden balances"


def rand_atoms(S, t):
    return [a for a in S.alg.poly(t).atoms() if a[0] == "rand"]


def masked_additively(S, t):
    """Some fresh scalar/element occurs in a monomial that contains no secret-dependent factor of degree > the mask:
    we require a monomial that is (generator or 1) * fresh, i.e. the fresh value enters linearly."""
    p = S.alg.poly(t)
    for mono, c in p.items():
        rs = [a for a, pw in mono if is_fresh(a) and pw == 1]
        if rs and abs(c) == 1 and len(mono) <= 2:
            return True
    return False


def masked_response(S, t):
    """resp = c*A + B: some fresh atom occurs alone (coefficient +-1) in B and nowhere in the masked secret A."""
    p = S.alg.poly(t)
    chal = ("chal",)
    A_atoms = set()
    B = []
    for mono, c in p.items():
        if any(a == chal for a, _ in mono):
            for a, _ in mono:
                if a != chal:
                    A_atoms.add(a)
                    A_atoms |= sub_atoms(a)
        else:
            B.append((mono, c))
    for mono, c in B:
        if len(mono) == 1 and mono[0][1] == 1 and abs(c) == 1 and is_fresh(mono[0][0]) and mono[0][0] not in A_atoms:
            return True
    return False


def sub_atoms(a):
    out = set()
    if isinstance(a, tuple):
        for x in a:
            if isinstance(x, tuple) and x:
                if x[0] in ("rand", "wsum"):
                    out.add(x)
                out |= sub_atoms(x)
    return out


def is_fresh(a):
    """A fresh scalar/element, or a fixed linear combination of fresh scalars (sum_j U^j r_j)."""
    if a[0] == "rand":
        return True
    if a[0] == "wsum" and a[3][0] == "V" and isinstance(a[3][1], tuple) and a[3][1] and a[3][1][0] == "rand":
        return True
    return False


def masked_multiplicatively(S, t):
    p = S.alg.poly(t)
    if not p:
        return False
    common = None
    for mono in p:
        rs = set(a for a, pw in mono if a[0] == "rand")
        common = rs if common is None else (common & rs)
    return bool(common)


def leaf_kind(path, roles):
    for step in path:
        if step[0] == CP and step[1] in (roles["bfr"], roles["rs"]):
            return "response"
    return "first"


def run(rep):
    prog = rep.prog
    rep.rule("masked-atoms", "every non-disclosed atom of every outgoing message carries randomness drawn inside the same call: response scalars c*secret + fresh, commitments with a fresh*h summand, shown signatures fresh*(...) in every monomial")
    rep.rule("rerandomised-signatures", "every signature that reaches a message passed through randomisation after it was read from the customer state (pay token in PayProof, closing signature in ClosingMessage)")
    rep.rule("disclosures", "only the documented disclosures leave the state unmasked: StartMessage.nonce = OLD state's nonce; LockMessage = OLD state's revocation pair + the old-lock commitment's blinding factor; ClosingMessage.close_state")
    rep.rule("secrecy", "no blinding factor, new nonce, revocation secret or hidden balance equals (or is a rand-free function feeding) a message atom")
    cr = commitment_proof_roles(rep)
    if cr is None:
        return
    roles = cr["proof"]
    n_atoms = 0
    for which in ("est", "pay"):
        A = analyse(rep, which)
        if A is None:
            continue
        prover(rep, A)
        if A.P is None:
            rep.fail("masked-atoms", A.name, "cannot reconstruct the honest prover output")
            continue
        S = A.SP
        P, _ = substitute_challenge(S, A.P)
        for term, lt, path in A.leaves:
            nm = leaf_name(prog, path)
            try:
                v = project_path(S, P, path)
            except Exception:
                v = None
            if v is None:
                rep.fail("masked-atoms", "%s.%s" % (A.name, nm), "atom not reconstructible")
                continue
            n_atoms += 1
            is_sig = any(step[0] in (SIG, BSIG) for step in path)
            if path and path[-1][0] == "each":
                # a vector of scalars: every element must be masked
                vec = project_path(S, P, path[:-1])
                cv = S.canon(vec)
                elems = list(cv[1]) if cv[0] == "array" else ([cv[1]] if cv[0] == "V" else [cv])
                resp = leaf_kind(path, roles) == "response"
                okm = bool(elems) and all((masked_response(S, e) if resp else masked_additively(S, e)) for e in elems)
                v = vec
            elif leaf_kind(path, roles) == "response":
                okm = masked_response(S, v)
            else:
                okm = masked_multiplicatively(S, v) if is_sig else masked_additively(S, v)
            if okm:
                rep.ok("masked-atoms", "%s.%s" % (A.name, nm), sample=("every monomial carries a fresh factor" if is_sig else "fresh additive mask"), nontrivial=True)
            else:
                rep.fail("masked-atoms", "%s.%s" % (A.name, nm),
                         "message atom `%s` of %s is not masked by randomness drawn in this call: %s - it is a deterministic function of values the merchant may have seen / of customer secrets" % (
                             nm, A.name, S.show(S.canon(v))[:300]), site=A.new.loc())
    # ---- a revealed scalar must not be the mask of a hidden slot
    rep.rule("revealed-masks", "a commitment scalar published in the proof masks only slots whose value is public by design (establish: channel id, balances, close tag; pay: old nonce, close tag): publishing the mask of a hidden slot (nonce, lock, balance, channel id in pay) lets the merchant solve the response for the secret")
    PUBLIC_ROLES = {"est": {("state", "cid"), ("state", "cust"), ("state", "merch"), ("close", "cid"), ("close", "cust"), ("close", "merch"), ("close", "close")},
                    "pay": {("old", "nonce"), ("close", "close")}}
    lay = layouts(rep)
    for which in ("est", "pay"):
        A = analyse(rep, which)
        if A is None or lay is None:
            continue
        bound = bind_fields(rep, A)
        if bound is None:
            continue
        fs = adt_fields(prog, A.adt)
        for i, hits in sorted(bound["kappa"].items()):
            bad = []
            for pname, j in hits:
                role = lay["close" if pname == "close" else "state"][j]
                if (pname, role) not in PUBLIC_ROLES[which]:
                    bad.append("%s proof slot %d (%s)" % (pname, j, role))
            key = "%s.%s" % (A.name, fs[i]["n"])
            if bad:
                rep.fail("revealed-masks", key, "the published scalar `%s` is also the commitment scalar of %s: response - c*secret = published value, so the merchant can compute the hidden value" % (
                    fs[i]["n"], ", ".join(bad)), site=A.new.loc())
            else:
                rep.ok("revealed-masks", key, sample="masks only %s" % ["%s[%d]" % h for h in hits])
    rep.floor("message atoms of the two proofs", n_atoms, 40)
    # ---- pay token shown in the pay proof is re-randomised (explicit, named rule)
    A = analyse(rep, "pay")
    if A is not None and getattr(A, "P", None) is not None:
        S = A.SP
        bound = bind_fields(rep, A)
        if bound and "token" in bound["other"]:
            P, _ = substitute_challenge(S, A.P)
            tokv = P[3][bound["other"]["token"]]
            tcpi, tbsi = sp_indices(prog)
            s1, s2 = bsig_parts(S, S.eng.proj_field(tokv, tbsi))
            if masked_multiplicatively(S, s1) and masked_multiplicatively(S, s2) and set(rand_atoms(S, s1)) & set(rand_atoms(S, s2)):
                rep.ok("rerandomised-signatures", "PayProof.pay-token", sample="(r*sigma1, r*(sigma2 + bf*sigma1)) with r, bf drawn in PayProof::new")
            else:
                rep.fail("rerandomised-signatures", "PayProof.pay-token", "the stored pay token is shown without a common fresh randomiser on both components", site=A.new.loc())
    # ---- closing messages
    for stage in ("Inactive", "Ready", "Started", "Locked"):
        b = method(prog, STAGES[stage], "close")
        if not rep.anchor(stage + "::close", b):
            continue
        rep.fn(b)
        S = Session(prog)
        r = S.eval(b)
        cm = find_structs(r, CLOSING)
        okc = False
        if len(cm) == 1:
            sgf = fields_of_type(prog, CLOSING, CSS)
            if len(sgf) == 1:
                g1, g2 = sig_of(S, prog, cm[0][3][sgf[0]], CSS)
                okc = masked_multiplicatively(S, g1) and masked_multiplicatively(S, g2) and bool(set(rand_atoms(S, g1)) & set(rand_atoms(S, g2)))
        if okc:
            rep.ok("rerandomised-signatures", stage + "::close", sample="closing signature shown as (r*sigma1, r*sigma2), r drawn in close()")
        else:
            rep.fail("rerandomised-signatures", stage + "::close", "%s::close shows the stored closing signature without re-randomising it (linkable to the merchant's own blind signature)" % stage, site=b.loc())
    for b, bi, s in who_constructs(prog, CLOSING):
      for root in owners_of(prog, b, stop=lambda r: r.desc.get("qpath", "").endswith("ClosingMessage::new")):
        nmr = root.desc.get("qpath", "")
        if nmr.endswith("ClosingMessage::new") or root.from_expansion:
            rep.ok("rerandomised-signatures", "who-may-construct ClosingMessage <- " + root.desc.get("name", "?"), sample=root.path, nontrivial=False)
        else:
            rep.fail("rerandomised-signatures", "who-may-construct ClosingMessage <- " + nmr[-50:], "ClosingMessage is built outside ClosingMessage::new (bypassing randomisation) in %s" % b.path, site=b.loc())
    # ---- disclosures: start / lock
    sr = started_roles(rep)
    if sr:
        S = sr["session"]
        okp = S.eng.proj_field(("down", sr["ret"], 0), 0)
        sm = find_structs(okp, ZA + "::customer::StartMessage")
        rs = fields_of_type(prog, STAGES["Ready"], STATE)[0]
        nm = method(prog, STATE, "nonce")
        okd = False
        if len(sm) == 1 and nm is not None:
            ni = fields_of_type(prog, ZA + "::customer::StartMessage", NONCE)
            if len(ni) == 1:
                okd = S.same(sm[0][3][ni[0]], S.call(nm, [fld(arg(1), rs)]))
        if okd:
            rep.ok("disclosures", "StartMessage.nonce", sample="the OLD state's nonce (the new state's nonce stays secret)")
        else:
            rep.fail("disclosures", "StartMessage.nonce", "StartMessage does not carry exactly the old state's nonce", site=sr["start"].loc())
    lock = method(prog, STAGES["Started"], "lock")
    if rep.anchor("Started::lock", lock) and sr:
        S = Session(prog)
        r = S.eval(lock)
        okp = S.eng.proj_field(("down", r, 0), 0)
        lm = find_structs(okp, LOCKMSG)
        okl = False
        why = ""
        if len(lm) == 1:
            RLBF = ZA + "::revlock::RevocationLockBlindingFactor"
            bfi = fields_of_type(prog, LOCKMSG, RLBF)
            pi = fields_of_type(prog, LOCKMSG, REVPAIR)
            BFS = ZA + "::proofs::BlindingFactors"
            bfs_i = fields_of_type(prog, STAGES["Started"], BFS)
            want_i = fields_of_type(prog, BFS, RLBF)
            rpm = method(prog, STATE, "revocation_pair")
            if len(bfi) == 1 and len(pi) == 1 and len(bfs_i) == 1 and len(want_i) == 1 and rpm is not None:
                okl = S.same(lm[0][3][bfi[0]], fld(fld(arg(1), bfs_i[0]), want_i[0])) and \
                    S.same(lm[0][3][pi[0]], S.call(rpm, [fld(arg(1), sr["old"])])) and len(lm[0][3]) == 2
                why = S.show(lm[0])[:300]
        if okl:
            rep.ok("disclosures", "LockMessage", sample="(old state's revocation pair, blinding factor of the old-lock commitment) and nothing else")
        else:
            rep.fail("disclosures", "LockMessage", "LockMessage discloses something other than the old revocation pair and the old-lock commitment's blinding factor: %s" % why, site=lock.loc())
    # ---- secrecy: secrets must not equal message atoms
    A = analyse(rep, "pay")
    if A is not None and getattr(A, "P", None) is not None:
        S = A.SP
        P, _ = substitute_challenge(S, A.P)
        out = A.prover_out
        bfs = S.eng.proj_field(out, 1) if out is not None else None
        secrets = []
        if bfs is not None and bfs[0] == "struct":
            for x in bfs[3]:
                secrets.append(S.canon(unwrap_scalar(S, x)))
        st = A.prover_args["state"]
        nm = method(prog, STATE, "nonce")
        nas = method(prog, NONCE, "as_scalar")
        if nm is not None and nas is not None:
            secrets.append(S.canon(S.call(nas, [S.call(nm, [st])])))
        leaked = []
        for term, lt, path in A.leaves:
            try:
                v = S.canon(project_path(S, P, path))
            except Exception:
                continue
            if v in secrets:
                leaked.append(leaf_name(prog, path))
        if leaked:
            rep.fail("secrecy", "PayProof", "a customer secret (%s) is placed verbatim in message atom(s) %s" % (SECRETS_NOTE, leaked), site=A.new.loc())
        else:
            rep.ok("secrecy", "PayProof", sample="none of %d secrets (three blinding factors, new nonce) equals any of the %d message atoms" % (len(secrets), len(A.leaves)))
    rep.assumptions += ["inequality of run-time values across sessions, statistical hiding, zero knowledge and unlinkability are not decided (cryptography / probability)",
                        "freshness = drawn from the caller's rng inside the same API call; uniformity of the rng is assumed"]


def unwrap_scalar(S, x):
    for _ in range(4):
        if x[0] == "struct" and len(x[3]) == 1:
            x = x[3][0]
        else:
            break
    return x
