"""C15 - Wire round-trips are lossless and decoded values satisfy every type invariant."""
from ..lib import *
from ..serdeinfo import *
from ..intlin import expand
from ..sym import contains_term
from .oracle import *
from .zk import *

LEVEL = "other"
EXPLANATION = ("Wire models of every (de)serializable type are extracted from the derive-generated and hand-written serde bodies "
               "in MIR (writer field sequence / reader element sequence / codec per field / try_from proxies) and compared: "
               "writer == reader, T == UncheckedT twin; every invariant-carrying type decodes only through its validating "
               "conversion whose Ok condition is compared (value reconstruction, normal forms) with the invariant table; only "
               "checked canonical leaf decoders are reachable from decode paths and their failure becomes Err.")

UNCHECKED = {
    PK: ZC + "::pointcheval_sanders::UncheckedPublicKey", SK: ZC + "::pointcheval_sanders::UncheckedSecretKey",
    SIG: ZC + "::pointcheval_sanders::UncheckedSignature", PARAMS: ZC + "::pedersen::UncheckedPedersenParameters",
    NONCE: ZA + "::nonce::UncheckedNonce", REVPAIR: ZA + "::revlock::UncheckedRevocationPair",
}
BAL = ZA + "::Balance"
FORBIDDEN_DECODERS = ("from_compressed_unchecked", "from_uncompressed", "from_uncompressed_unchecked", "from_bytes_unchecked",
                      "from_bytes_wide", "from_raw_unchecked")


def try_from_impl(prog, target, source_pred):
    for b in trait_method_impls(prog, "std::convert::TryFrom", "try_from"):
        st = b.desc.get("self_ty")
        if st and st[0] == "adt" and st[1] == target and b.argc == 1 and source_pred(b.locals[1]):
            return b
    return None


def any_atom(S, node):
    b = S.alg.bdd
    return b.var(("any", ("B", node)))


def run(rep):
    prog = rep.prog
    rep.rule("decode-invariant", "each invariant-carrying type decodes only via its validating conversion (no aggregate of the type inside its own Deserialize code), and the conversion returns Ok exactly under the invariant table's checks on the very fields it stores")
    rep.rule("canonical-leaves", "decode-reachable crate code calls only the checked decoders (from_compressed / from_bytes); their failure becomes Err")
    rep.rule("writer-reader", "for every wire type: the serializer emits every field, in the order and with the codec the deserializer reads them")
    rep.rule("twin-agreement", "checked type and its Unchecked twin agree field by field (order, type, codec)")
    rep.rule("text-codec", "ChannelId Display/FromStr = base64 encode <-> decode + 32-byte length check")
    wm = wire_model(prog)
    rep.floor("wire types with serde impls", len(wm), 50)
    # ---- writer/reader agreement
    n_pairs = 0
    for adt, m in sorted(wm.items()):
        rec = prog.adts[adt]
        if rec["kind"] != "Struct":
            continue
        nm = adt.split("::")[-1]
        nfields = len(rec["variants"][0]["fields"])
        w, r = m["writer"], m["reader"]
        if w is not None:
            idxs = [fi for fi, _ in w]
            if idxs != list(range(nfields)):
                rep.fail("writer-reader", nm + "/writer-complete", "%s's serializer emits fields %s, the type has %d fields: a field is skipped, repeated or reordered" % (nm, idxs, nfields),
                         site=m["ser_body"].loc())
                continue
        if w is None or r is None:
            continue
        if r[0] == "seq":
            n_pairs += 1
            wc = [c for _, c in w]
            if wc == r[1]:
                rep.ok("writer-reader", nm, sample="%d field(s): %s" % (nfields, [c[1] for c in wc]))
            else:
                rep.fail("writer-reader", nm, "%s: serializer writes %s but deserializer reads %s" % (nm, wc, r[1]), site=m["de_body"].loc())
        elif r[0] == "try_from":
            proxy = r[1]
            if proxy[0] == "adt" and proxy[1] in wm:
                pm = wm[proxy[1]]
                pr = pm["reader"]
                n_pairs += 1
                wc = [c for _, c in w]
                if pr is not None and pr[0] == "seq" and codecs_equal(wm, wc, pr[1]):
                    # twin field-by-field
                    f1 = [(f["n"], f["t"]) for f in rec["variants"][0]["fields"]]
                    f2 = [(f["n"], f["t"]) for f in prog.adts[proxy[1]]["variants"][0]["fields"]]
                    pos_ok, pos_why, pb = proxy_conversion_positional(prog, adt, proxy)
                    if not pos_ok:
                        rep.fail("twin-agreement", nm + "/conversion", "%s's decode conversion does not carry the twin's fields over in place: %s" % (nm, pos_why), site=(pb or m["de_body"]).loc())
                    elif twin_equal(prog, f1, f2, adt, proxy[1]):
                        rep.ok("twin-agreement", nm, sample="%s == %s field by field; writer == twin reader; %s" % (nm, proxy[1].split("::")[-1], pos_why))
                    else:
                        rep.fail("twin-agreement", nm, "%s and its decode twin %s differ: %s vs %s" % (nm, proxy[1].split("::")[-1],
                                 [(a, ty_str(t)) for a, t in f1], [(a, ty_str(t)) for a, t in f2]), site=m["de_body"].loc())
                else:
                    rep.fail("writer-reader", nm, "%s: serializer writes %s but its decode twin reads %s" % (nm, wc, pr), site=m["de_body"].loc())
            else:
                # primitive proxy (newtype over an integer)
                n_pairs += 1
                wc = [c for _, c in w]
                if wc == [("plain", ty_str(proxy))]:
                    rep.ok("writer-reader", nm, sample="newtype written as %s, decoded from %s then validated" % (ty_str(proxy), ty_str(proxy)))
                else:
                    rep.fail("writer-reader", nm, "%s: serializer writes %s but decoder reads a %s" % (nm, wc, ty_str(proxy)), site=m["de_body"].loc())
    rep.floor("writer/reader pairs compared", n_pairs, 40)
    # ---- decode-time invariants
    pkr = public_key_roles(rep)
    skr = secret_key_roles(rep)
    inv_types = [PK, SK, SIG, PARAMS, NONCE, REVPAIR, BAL]
    for adt in inv_types:
        nm = adt.split("::")[-1]
        m = wm.get(adt)
        if m is None or m["reader"] is None:
            rep.fail("decode-invariant", nm + "/route", "%s has no reconstructible Deserialize route" % nm)
            continue
        if m["reader"][0] != "try_from":
            rep.fail("decode-invariant", nm + "/route", "%s is decoded field-by-field by a derived visitor instead of through its validating conversion: any byte string of the right shape yields a value without the invariant" % nm,
                     site=m["de_body"].loc())
            continue
        # no aggregate of the type inside serde-generated bodies
        leaked = [b for b, bi, s in who_constructs(prog, adt) if b.from_expansion and not is_preserving_copy(prog, root_body(prog, b), adt)
                  and (root_body(prog, b).desc.get("trait") in (DE, VIS))]
        if leaked:
            rep.fail("decode-invariant", nm + "/route", "%s is constructed inside serde-generated code %s" % (nm, leaked[0].path), site=leaked[0].loc())
            continue
        rep.ok("decode-invariant", nm + "/route", sample="Deserialize = decode %s ; TryFrom" % ty_str(m["reader"][1]))
    validators(rep, pkr, skr)
    # ---- canonical leaves
    canonical_leaves(rep)
    codec_pairs(rep, wm)
    text_codec(rep)
    rep.assumptions += ["bls12_381's checked decoders accept exactly canonical, on-curve, in-subgroup encodings; bincode / serde framing is deterministic",
                        "`behaves identically afterwards` follows from byte equality for these plain-data types (not separately analysed)"]


def canonical_leaves(rep):
    """Every group element / scalar that can come off the wire went through bls12_381's checked decoder: decode-reachable
    crate code calls no unchecked decoder, and the three leaf codecs return Ok exactly on the checked decoder's success.
    Shared, under the name `wire-group-membership`, by the properties whose verifiers assume prime-order group elements."""
    prog = rep.prog
    entries = decode_entry_points(prog)
    rep.floor("decode entry points", len(entries), 300)
    reach = reachable_local(prog, entries)
    nleaf = 0
    for b in reach.values():
        for bi, t in b.calls():
            cd = callee_of(prog, t)
            q = cd.get("qpath", "")
            nmc = cd.get("name", "")
            if q.startswith("bls12_381::") and (nmc.startswith("from_") or "unchecked" in nmc):
                nleaf += 1
                if nmc in FORBIDDEN_DECODERS or "unchecked" in nmc or nmc in ("from_raw",):
                    rep.fail("canonical-leaves", "%s in %s" % (nmc, b.desc.get("qpath", b.id).split("::")[-2:]),
                             "decode path calls the unchecked / non-canonical decoder %s in %s" % (q, b.path), site=b.loc(t.get("ln")))
                else:
                    rep.ok("canonical-leaves", "%s@%s" % (q.split("::", 1)[1], b.id.split("::")[-2]), sample="checked decoder", nontrivial=False)
    rep.floor("leaf decoder call sites on decode paths", nleaf, 3)
    leaf_codecs(rep)


def wire_group_membership(rep):
    from ..core import RuleView
    rep.rule("wire-group-membership", "necessary condition shared with C15: every G1/G2 element and scalar a verifier receives from the wire was accepted by the checked (on-curve, in-subgroup, canonical) decoder - an element with a cofactor component pairs to 1 with everything and voids the pairing / Schnorr equations")
    canonical_leaves(RuleView(rep, {"canonical-leaves": "wire-group-membership"}))


def codecs_equal(wm, wc, rc):
    """Codec lists equal up to nested checked/Unchecked twins with identical wire models."""
    if len(wc) != len(rc):
        return False
    for a, b in zip(wc, rc):
        if a == b:
            continue
        if a[0] == "plain" and b[0] == "plain" and b[1] == "Unchecked" + a[1]:
            ma = [m for k, m in wm.items() if k.split("::")[-1] == a[1]]
            mb = [m for k, m in wm.items() if k.split("::")[-1] == b[1]]
            if len(ma) == 1 and len(mb) == 1 and ma[0]["writer"] is not None and mb[0]["reader"] is not None and \
                    mb[0]["reader"][0] == "seq" and [c for _, c in ma[0]["writer"]] == mb[0]["reader"][1]:
                continue
        return False
    return True


def twin_equal(prog, f1, f2, a1, a2):
    if len(f1) != len(f2):
        return False
    for (n1, t1), (n2, t2) in zip(f1, f2):
        if n1 != n2:
            return False
        if t1 != t2:
            # nested twins (RevocationSecret vs UncheckedRevocationSecret): compare structurally one level
            if t1[0] == "adt" and t2[0] == "adt" and t2[1].split("::")[-1] == "Unchecked" + t1[1].split("::")[-1]:
                g1 = [(f["n"], f["t"]) for f in prog.adts[t1[1]]["variants"][0]["fields"]]
                g2 = [(f["n"], f["t"]) for f in prog.adts[t2[1]]["variants"][0]["fields"]]
                if not twin_equal(prog, g1, g2, t1[1], t2[1]):
                    return False
            else:
                return False
    return True


def arg_fields_used(t, acc=None, _seen=None):
    """Top-level fields of argument 1 a term reads (`None` in the set = the whole argument)."""
    if acc is None:
        acc, _seen = set(), set()
    if not isinstance(t, tuple) or id(t) in _seen:
        return acc
    _seen.add(id(t))
    if t == ("arg", 1):
        acc.add(None)
        return acc
    if len(t) >= 3 and t[0] == "field" and t[1] == ("arg", 1):
        acc.add(t[2])
        return acc
    for x in t:
        if isinstance(x, tuple):
            arg_fields_used(x, acc, _seen)
    return acc


def proxy_conversion_positional(prog, adt, proxy):
    """For `#[serde(try_from = proxy)]`: the value accepted by the conversion stores, in field i, data read from
    proxy field i only (no field swapped / dropped / duplicated on the way in).  Returns (ok, reason, body)."""
    b = try_from_impl(prog, adt, lambda t: t == proxy or (t[0] == "adt" and proxy[0] == "adt" and t[1] == proxy[1]))
    if b is None:
        return False, "no TryFrom<%s> conversion found" % ty_str(proxy), None
    S = Session(prog)
    try:
        r = S.eval(b)
    except Exception as e:       # fail closed
        return False, "conversion body not evaluable: %r" % (e,), b
    if r is None:
        return False, "conversion has no normal return", b
    okp = S.eng.proj_field(("down", r, 0), 0)
    if okp[0] != "struct" or okp[1] != adt:
        okp = S.canon(okp)
    if okp[0] != "struct" or okp[1] != adt:
        return False, "accepted value is not a field-wise construction of the type: %s" % S.show(okp)[:200], b
    n = len(okp[3])
    if proxy[0] != "adt":
        used = arg_fields_used(okp[3][0]) if n == 1 else {1}
        return (used == {None}), "newtype payload reads %s" % sorted(map(str, used)), b
    is_ok = S.alg.nb(S.eng.eq_int(S.eng.discr(r), 0))
    fts = [f["t"] for f in prog.adts[adt]["variants"][0]["fields"]]
    for i, f in enumerate(okp[3]):
        used = arg_fields_used(f)
        if used != {i}:
            # recomputed from other fields, but accepted only when equal to the stored one (e.g. lock == H(secret))?
            try:
                leaves = list(type_leaves(prog, fts[i], fld(arg(1), i)))
                forced = bool(leaves) and all(S.alg.bdd.implies(is_ok, S.alg.eq(project_path(S, f, path), term))
                                              for term, _lt, path in leaves)
            except Exception:
                forced = False
            if forced:
                continue
            return False, "field %d of the accepted %s is built from proxy field(s) %s instead of field %d" % (
                i, adt.split("::")[-1], sorted(map(str, used)), i), b
    return True, "%d fields carried over position by position" % n, b


def validators(rep, pkr, skr, only=None):
    """Ok-condition of each validating conversion == invariant table entry; Ok payload == the validated fields.
    `only`: restrict to the named types (other properties share single entries as necessary conditions)."""
    prog = rep.prog

    def want_(nm):
        return only is None or nm in only
    # PublicKey
    specs = []
    b = try_from_impl(prog, PK, lambda t: t[0] == "adt" and t[1] == UNCHECKED[PK])
    if want_("PublicKey") and rep.anchor("TryFrom<UncheckedPublicKey> for PublicKey", b) and pkr:
        S = Session(prog)
        r = S.eval(b)
        rep.fn(b)
        u = arg(1)
        bb = S.alg.bdd
        y1, y2 = S.canon(fld(u, pkr["y1s"])), S.canon(fld(u, pkr["y2s"]))
        arr = bb.OR(S.alg.zero_atom(S.alg.poly(("E", y1))), S.alg.zero_atom(S.alg.poly(("E", y2))))
        want = bb.AND(bb.AND(nonzero(S, fld(u, pkr["g1"])), bb.AND(nonzero(S, fld(u, pkr["g2"])), nonzero(S, fld(u, pkr["x2"])))), bb.NOT(any_atom(S, arr)))
        finish(rep, S, b, r, want, "PublicKey", PK, u, 5)
    b = try_from_impl(prog, SK, lambda t: t[0] == "adt" and t[1] == UNCHECKED[SK])
    if want_("SecretKey") and rep.anchor("TryFrom<UncheckedSecretKey> for SecretKey", b) and skr:
        S = Session(prog)
        r = S.eval(b)
        rep.fn(b)
        u = arg(1)
        bb = S.alg.bdd
        ys = S.canon(fld(u, skr["ys"]))
        want = bb.AND(bb.AND(nonzero(S, fld(u, skr["x"])), nonzero(S, fld(u, skr["x1"]))), bb.NOT(any_atom(S, S.alg.zero_atom(S.alg.poly(("E", ys))))))
        finish(rep, S, b, r, want, "SecretKey", SK, u, 3)
    b = try_from_impl(prog, PARAMS, lambda t: t[0] == "adt" and t[1] == UNCHECKED[PARAMS])
    if want_("PedersenParameters") and rep.anchor("TryFrom<UncheckedPedersenParameters> for PedersenParameters", b):
        S = Session(prog)
        r = S.eval(b)
        rep.fn(b)
        u = arg(1)
        bb = S.alg.bdd
        # roles of the unchecked twin = same field order as the checked type, whose roles come from its accessors
        pv = ("struct", PARAMS, 0, (("ph",), ("pgs",)))
        h, gs = params_roles(S, pv)
        hi, gi = (0, 1) if S.canon(h) == ("ph",) else (1, 0)
        want = bb.AND(nonzero(S, fld(u, hi)), bb.NOT(any_atom(S, S.alg.zero_atom(S.alg.poly(("E", S.canon(fld(u, gi))))))))
        finish(rep, S, b, r, want, "PedersenParameters", PARAMS, u, 2)
    b = try_from_impl(prog, SIG, lambda t: t[0] == "adt" and t[1] == UNCHECKED[SIG])
    if want_("Signature") and rep.anchor("TryFrom<UncheckedSignature> for Signature", b):
        S = Session(prog)
        r = S.eval(b)
        rep.fn(b)
        u = arg(1)
        t1, _ = sig_parts(S, ("struct", SIG, 0, (("s1",), ("s2",))))
        i1 = 0 if S.canon(t1) == ("s1",) else 1
        want = nonzero(S, fld(u, i1))
        finish(rep, S, b, r, want, "Signature", SIG, u, 2)
    b = try_from_impl(prog, NONCE, lambda t: t[0] == "adt" and t[1] == UNCHECKED[NONCE])
    if want_("Nonce") and rep.anchor("TryFrom<UncheckedNonce> for Nonce", b):
        S = Session(prog)
        r = S.eval(b)
        rep.fn(b)
        u = arg(1)
        want = S.alg.bdd.NOT(S.alg.eq(fld(u, 0), ("const", CLOSE_CONST)))
        finish(rep, S, b, r, want, "Nonce", NONCE, u, 1)
    b = try_from_impl(prog, BAL, lambda t: t == ("prim", "u64"))
    if want_("Balance") and rep.anchor("TryFrom<u64> for Balance", b):
        S = Session(prog)
        r = S.eval(b)
        rep.fn(b)
        is_ok = S.eng.eq_int(S.eng.discr(r), 0)
        want = S.eng.bdd.NOT(S.eng.bdd.var(("icmp", "Lt", ("int", (1 << 63) - 1), arg(1), "u64")))
        okp = S.eng.proj_field(("down", r, 0), 0)
        if is_ok == want and S.same(okp, ("struct", BAL, 0, (arg(1),))):
            rep.ok("decode-invariant", "Balance", sample="Ok(Balance(v)) iff v <= 2^63-1")
        else:
            rep.fail("decode-invariant", "Balance", "decoded balances are not restricted to [0, 2^63-1]: Ok iff %s" % S.show(("b", is_ok)), site=b.loc())
    # RevocationPair: C05's invariant rule on the decode route
    from .c05 import check_pair_values, impl_try_from, URP
    bp = impl_try_from(prog, REVPAIR, URP)
    if want_("RevocationPair") and rep.anchor("TryFrom<UncheckedRevocationPair> for RevocationPair", bp):
        sub = SubReport(rep, "decode-invariant", "RevocationPair")
        check_pair_values(sub, bp, "producer")


class SubReport:
    """Forward C05's pair-invariant verdict under this property's rule name."""

    def __init__(self, rep, rule, key):
        self.__dict__.update(rep=rep, rule=rule, key=key, prog=rep.prog)

    def fn(self, b):
        self.rep.fn(b)

    def ok(self, rule, key, sample=None, **kw):
        self.rep.ok(self.rule, self.key, sample=sample)

    def fail(self, rule, key, msg, site=None, **kw):
        self.rep.fail(self.rule, self.key, msg, site=site)

    def anchor(self, what, obj):
        return self.rep.anchor(what, obj)

    def floor(self, *a):
        return True


def finish(rep, S, b, r, want, nm, adt, u, nfields):
    if r is None:
        rep.fail("decode-invariant", nm, "validator has no normal return", site=b.loc())
        return
    is_ok = S.alg.nb(S.eng.eq_int(S.eng.discr(r), 0))
    okp = S.eng.proj_field(("down", r, 0), 0)
    same_fields = okp[0] == "struct" and okp[1] == adt and all(S.same(okp[3][i], fld(u, i)) for i in range(nfields))
    if is_ok == want and same_fields and want not in (0, 1):
        rep.ok("decode-invariant", nm, sample="Ok(fields unchanged) iff " + explain(S, want)[:400])
    else:
        why = "" if same_fields else " ; and the accepted value is not the validated one: %s" % S.show(okp)[:300]
        rep.fail("decode-invariant", nm, "%s's decode-time validation accepts under %s, the invariant requires %s%s" % (
            nm, explain(S, is_ok)[:500], explain(S, want)[:500], why), site=b.loc())


def leaf_codecs(rep):
    """Each element / scalar codec returns Ok(decoded) exactly on the checked decoder's success."""
    prog = rep.prog
    for b in trait_method_impls(prog, SE, "deserialize"):
        st = b.desc.get("self_ty")
        nm = ty_str(st)
        if nm not in ("G1Affine", "G2Affine", "Scalar"):
            continue
        rep.fn(b)
        S = Session(prog)
        r = S.eval(b)
        okc = False
        why = ""
        if r is not None:
            for pc, leaf in expand(S, r):
                pass
            is_ok = S.eng.eq_int(S.eng.discr(r), 0)
            atoms = [a for a in S.eng.bdd.support(is_ok)]
            can = [a for a in atoms if a[0] == "canonical"]
            lits = S.eng.bdd.necessary_literals(is_ok)
            okc = len(can) == 1 and (can[0], True) in lits
            okp = S.eng.proj_field(("down", r, 0), 0)
            okc = okc and okp[0] == "decode" and okp[2] == can[0][2]
            why = S.show(r)[:300]
        if okc:
            rep.ok("canonical-leaves", "codec:" + nm, sample="Ok(decoded) only if the checked decoder accepted the bytes read by the framing codec")
        else:
            rep.fail("canonical-leaves", "codec:" + nm, "<%s as SerializeElement>::deserialize does not return exactly the checked decoder's result: %s" % (nm, why), site=b.loc())


def strip_r(t):
    while t[0] in ("refv", "copied", "deref", "box"):
        t = t[1]
    return t


class _DeferFails:
    """Report view that records codec failures instead of filing them (see codec_pairs(only_used=True))."""

    def __init__(self, rep):
        self._rep = rep
        self.failed = {}

    def __getattr__(self, n):
        return getattr(self._rep, n)

    def fail(self, rule, key, msg, site=None, detail=None):
        self.failed[str(key)] = (msg, site)


def codec_pairs(rep, wm, only_used=False):
    """Every custom (`with = ...`) codec used by a wire type is one of the analysed writer/reader pairs, and each
    pair is an inverse pair: the writer emits exactly what the reader consumes.
    only_used: a defective codec is reported only through the wire types of `wm` that name it (a property about a
    subset of the wire types, C20, is not violated by a codec none of its types uses)."""
    prog = rep.prog
    real = rep
    if only_used:
        rep = _DeferFails(rep)
    rep.rule("codec-pairs", "every custom codec named by a wire type is an analysed pair: leaf writers emit the canonical bytes of the whole value through the same framing codec the reader uses; sequence writers emit each element once, in order, through the element codec; the helper module forwards both directions to one foreign codec")
    sers = {ty_str(b.desc.get("self_ty")): b for b in trait_method_impls(prog, SE, "serialize")}
    des = {ty_str(b.desc.get("self_ty")): b for b in trait_method_impls(prog, SE, "deserialize")}
    analysed = set()
    for nm in sorted(sers):
        sb, db = sers[nm], des.get(nm)
        if db is None:
            rep.fail("codec-pairs", nm, "SerializeElement for %s has a writer but no reader" % nm, site=sb.loc())
            continue
        rep.fn(sb)
        S = Session(prog)
        w = S.eval(sb)
        framing_w = [q for q in S.eng.unknown_calls if q.endswith("::serialize")]
        S2 = Session(prog)
        S2.eval(db)
        framing_r = [q for q in S2.eng.unknown_calls if q.endswith("::deserialize")]
        if nm in ("G1Affine", "G2Affine", "Scalar", "G1Projective", "G2Projective"):
            okw = w is not None and w[0] == "call" and w[1].endswith("::serialize") and len(w[2]) == 2 and strip_r(w[2][0]) == ("bytes", ("arg", 1)) \
                or (w is not None and w[0] == "call" and len(w[2]) == 2 and S.canon(strip_r(w[2][0])) == ("bytes", ("arg", 1)))
            def frame(q):
                q = q.rsplit("::", 1)[0]
                return "serde(plain)" if q in ("_::_serde::Serialize", "_::_serde::Deserialize") else q
            same_frame = len(framing_w) == 1 and len(framing_r) == 1 and frame(framing_w[0]) == frame(framing_r[0])
            if okw and same_frame:
                analysed.add("SerializeElement:" + nm)
                rep.ok("codec-pairs", nm, sample="writer = %s(canonical bytes of the value); reader decodes through %s" % (framing_w[0], framing_r[0]))
            else:
                rep.fail("codec-pairs", nm, "<%s as SerializeElement>::serialize does not emit the canonical bytes of the whole value through the reader's framing codec: %s ; framing %s / %s" % (
                    nm, S.show(w)[:200] if w is not None else None, framing_w, framing_r), site=sb.loc())
        else:
            # sequence codecs: one iterator loop over the whole value, each element written once through the element wrapper
            loops = [li for li in S.eng.loops.values() if li.kind == "iter"]
            el = [q for q in S.eng.unknown_calls if q.endswith("SerializeSeq::serialize_element")]
            src_ok = len(loops) == 1 and loops[0].src is not None and S.canon(strip_shape(loops[0].src)) == ("arg", 1)
            wrapped = "SerWrapper" in S.show(w) if w is not None else False
            rd_ok, rd_why = reader_exhausts(rep, db)
            if src_ok and el and wrapped and rd_ok:
                analysed.add("SerializeElement:" + nm)
                rep.ok("codec-pairs", nm, sample="writer iterates the whole sequence once, one serialize_element(SerWrapper(&e)) per element; reader: " + rd_why)
            elif src_ok and el and wrapped:
                rep.fail("codec-pairs", nm, "<%s as SerializeElement>::deserialize accepts a sequence it has not read to its end (%s): an encoding announcing more elements than the writer emits decodes successfully - decoding is not restricted to canonical encodings" % (nm, rd_why), site=db.loc())
            else:
                rep.fail("codec-pairs", nm, "<%s as SerializeElement>::serialize is not one pass over the whole sequence through the element codec (loops=%d, source ok=%s)" % (nm, len(loops), src_ok), site=sb.loc())
    # helper modules with free serialize/deserialize functions
    helpers = {}
    for b in prog.bodies.values():
        if b.kind == "Fn" and b.desc.get("name") in ("serialize", "deserialize") and is_workspace(b.id) and not b.from_expansion and b.desc.get("container") != "impl":
            helpers.setdefault(b.id.rsplit("::", 1)[0], {})[b.desc["name"]] = b
    for mod, fns in sorted(helpers.items()):
        key = "fn:" + mod
        if set(fns) != {"serialize", "deserialize"}:
            rep.fail("codec-pairs", mod.split("::")[-1], "codec module %s lacks one direction" % mod)
            continue
        Sa, Sb = Session(prog), Session(prog)
        wv = Sa.eval(fns["serialize"])
        rv = Sb.eval(fns["deserialize"])

        def frame(q):
            q = q.rsplit("::", 1)[0]
            return "serde(plain)" if q in ("_::_serde::Serialize", "_::_serde::Deserialize") else q
        fw = sorted(frame(q) for q in Sa.eng.unknown_calls if q.endswith("::serialize"))
        fr = sorted(frame(q) for q in Sb.eng.unknown_calls if q.endswith("::deserialize"))
        # lossless pair: the writer hands the value itself (not a function of it) to the foreign codec, and the reader
        # returns the decoded value itself (possibly boxed) - anything else (re-encoding, reduction, truncation) may
        # not round-trip and is not accepted without an identity proof
        w_id = wv is not None and wv[0] == "call" and len(wv[2]) == 2 and strip_r(wv[2][0]) in (("arg", 1),)
        r_id = False
        if rv is not None:
            okp = Sb.eng.proj_field(("down", rv, 0), 0)
            while okp is not None and okp[0] in ("box", "copied", "refv"):
                okp = okp[1]
            r_id = okp is not None and (
                (okp[0] == "vfield" and okp[1][0] == "call" and okp[1][1].endswith("::deserialize") and okp[2] == 0) or
                (okp[0] == "field" and okp[1][0] == "down" and okp[1][1][0] == "call" and okp[1][1][1].endswith("::deserialize")))
        if len(fw) == 1 and fw == fr and w_id and r_id:
            analysed.add(key)
            rep.ok("codec-pairs", mod.split("::")[-1], sample="both directions forward the value unchanged to %s" % fw[0])
        else:
            rep.fail("codec-pairs", mod.split("::")[-1], "codec module %s is not a plain forwarding pair (writer passes %s to %s, reader returns %s from %s): the stored value is transformed on the way and is not shown to come back unchanged" % (
                mod, Sa.show(wv[2][0])[:120] if wv is not None and wv[0] == "call" and wv[2] else Sa.show(wv)[:120] if wv is not None else None, fw,
                Sb.show(rv)[:160] if rv is not None else None, fr), site=fns["serialize"].loc())
    # every `with` codec named by a wire model is analysed (generic element codec `G` = one of the leaf impls by the sealed bounds)
    used = set()
    for adt, m in wm.items():
        for _, c in (m["writer"] or []):
            if c is not None and c[0] == "with":
                used.add((c[1], adt))
        r = m["reader"]
        if r is not None and r[0] == "seq":
            for c in r[1]:
                if c[0] == "with":
                    used.add((c[1], adt))
    for c, adt in sorted(used):
        base = c
        if c == "SerializeElement:G":
            continue            # generic over the sealed group traits: resolved to the leaf impls above
        if c.startswith("SerializeElement:Box<[") or c.startswith("SerializeElement:[") or c.startswith("SerializeElement:Vec<"):
            base = "SerializeElement:" + [k for k in sers if c.split(":", 1)[1].split(",")[0].split("<")[0] == k.split(",")[0].split("<")[0]][0] if any(
                c.split(":", 1)[1].split(",")[0].split("<")[0] == k.split(",")[0].split("<")[0] for k in sers) else c
        if base not in analysed:
            why = getattr(rep, "failed", {}).get(base.split(":", 1)[-1])
            real.fail("codec-pairs", "%s@%s" % (c, adt.split("::")[-1]), "wire type %s uses the custom codec %s, which is not an analysed writer/reader pair%s" % (
                adt.split("::")[-1], c, (": " + why[0]) if why else ""), site=why[1] if why else None)


def reader_exhausts(rep, db, _depth=0):
    """The sequence reader `db` (= <T as SerializeElement>::deserialize) returns Ok only after its SeqAccess reported the
    end of the sequence: every way out of the reading loop that can lead to an Ok result is the `next_element() == Ok(None)`
    exit.  Returns (ok, explanation)."""
    prog = rep.prog
    vs = [b for b in prog.bodies.values() if b.desc.get("trait_item", "").endswith("de::Visitor::visit_seq")
          and str(b.desc.get("impl", "")).startswith(db.id + "::")]
    if not vs and _depth < 2:
        # a wrapper reader (Box<[G; N]>): it must obtain its value from another reader of the same trait that does
        inner = [prog.bodies[cd["id"]] for b_, bi, t, cd, od in calls_in(prog, db)
                 if od.get("id", "").endswith("SerializeElement::deserialize") and cd.get("id") in prog.bodies and cd.get("id") != db.id]
        if len(inner) == 1:
            okr, why = reader_exhausts(rep, inner[0], _depth + 1)
            return okr, "forwards to %s: %s" % (ty_str(inner[0].desc.get("self_ty")), why)
    if len(vs) != 1:
        return False, "no single visit_seq belonging to this reader (%d found)" % len(vs)
    b = vs[0]
    rep.fn(b)
    S = Session(prog)
    r = S.eval(b)
    if r is None:
        return False, "visit_seq has no normal return"
    bdd = S.eng.bdd
    gen = [(uid, li) for uid, li in S.eng.loops.items() if li.kind == "generic"]
    if len(gen) != 1:
        return False, "%d reading loops" % len(gen)
    uid, li = gen[0]

    def is_end_exit(cond):
        """cond implies: next_element(..) is Ok and its payload is None (two-variant enums: discr == 0 <=> discr != 1)"""
        lits = bdd.necessary_literals(cond) if isinstance(cond, int) else []
        got_ok = got_none = False
        for a, v in lits:
            if not (a[0] == "eq" and a[1][0] == "discr" and a[2][0] == "int" and a[2][1] in (0, 1)):
                continue
            x = a[1][1]
            is0 = (a[2][1] == 0) == bool(v)         # the literal says discr(x) == 0
            if x[0] == "call" and x[1].endswith("SeqAccess::next_element") and is0:
                got_ok = True
            if x[0] == "vfield" and x[2] == 0 and x[1][0] == "call" and x[1][1].endswith("SeqAccess::next_element") and is0:
                got_none = True
        return got_ok and got_none
    # the collection handed back is the one that received every element read: some loop-carried cell starts empty and
    # each iteration appends exactly the payload of that iteration's next_element()
    def is_read_elem(t):
        while isinstance(t, tuple) and t and t[0] in ("field", "vfield", "copied", "deref", "refv"):
            t = t[1]
        return isinstance(t, tuple) and t and t[0] == "call" and t[1].endswith("SeqAccess::next_element")
    coll = [c for c, st in li.step.items()
            if isinstance(st, tuple) and st and st[0] == "pushed" and st[1] == ("lv", uid, c) and is_read_elem(st[2])
            and li.init.get(c) is not None and li.init[c][0] in ("vec", "arrayvec") and li.init[c][1] in ((), ("array", ()))]
    if len(coll) != 1:
        return False, "no collection that starts empty and receives each decoded element exactly once (step terms: %s)" % [S.show(v)[:60] for v in li.step.values() if v and v[0] != "b"][:3]
    ends = [is_end_exit(c) for c, _t in li.early]
    if not any(ends):
        return False, "the reading loop has no exit on next_element() == Ok(None)"
    single = len(li.early) == 1
    for pc, leaf in expand(S, r):
        if not (leaf[0] == "struct" and leaf[1].endswith("result::Result") and leaf[2] == 0):
            continue
        # exits compatible with this Ok path (exit k is taken when its atom holds and no earlier one does)
        for k in range(len(li.early)):
            if single:
                compat = True
            else:
                c = bdd.AND(pc, bdd.var(("exit", uid, k)))
                for j in range(k):
                    c = bdd.AND(c, bdd.NOT(bdd.var(("exit", uid, j))))
                compat = c != 0
            if compat and not ends[k]:
                return False, "an Ok result is reachable through loop exit %d, taken under %s" % (k, S.show(("b", li.early[k][0]))[:160])
        if not (contains_term(leaf, ("some_iter", uid, coll[0])) or contains_term(leaf, ("loopout", uid, coll[0]))):
            return False, "the Ok payload is not built from the collection of decoded elements: %s" % S.show(leaf)[:160]
    return True, "Ok only after next_element() returned Ok(None) (%d loop exits, %d of them end-of-sequence)" % (len(ends), sum(ends))


def strip_shape(shape):
    while shape[0] in ("refs", "vals", "box", "refv", "deref", "copied"):
        shape = shape[1]
    return shape


def text_codec(rep):
    prog = rep.prog
    fs = [b for b in trait_method_impls(prog, "std::str::FromStr", "from_str") if b.desc["self_ty"][0] == "adt" and b.desc["self_ty"][1] == CHANNELID]
    ds = [b for b in trait_method_impls(prog, "std::fmt::Display", "fmt") if b.desc["self_ty"][0] == "adt" and b.desc["self_ty"][1] == CHANNELID]
    if not (rep.anchor("FromStr for ChannelId", fs) and rep.anchor("Display for ChannelId", ds)):
        return
    enc = [callee_of(prog, t).get("qpath") for b_, bi, t, cd, od in calls_in(prog, ds[0]) if callee_of(prog, t).get("qpath", "").startswith("base64::")]
    dec = [callee_of(prog, t).get("qpath") for b_, bi, t, cd, od in calls_in(prog, fs[0]) if callee_of(prog, t).get("qpath", "").startswith("base64::")]
    rep.fn(fs[0])
    rep.fn(ds[0])
    S = Session(prog)
    r = S.eval(fs[0])
    lenck = False
    if r is not None:
        is_ok = S.eng.eq_int(S.eng.discr(r), 0)
        lenck = any(a[0] == "len_is" and a[2] == 32 for a in S.eng.bdd.support(is_ok))
    if enc == ["base64::encode"] and dec == ["base64::decode"] and lenck:
        rep.ok("text-codec", "ChannelId", sample="Display = base64::encode(bytes); FromStr = base64::decode + exactly-32-bytes check")
    else:
        rep.fail("text-codec", "ChannelId", "ChannelId text codec is not encode/decode + 32-byte check: enc=%s dec=%s length-check=%s" % (enc, dec, lenck), site=fs[0].loc())
