"""C16 - Decoding untrusted bytes never panics, aborts or over-allocates."""
from ..lib import *
from ..serdeinfo import *
from ..oblig import discharge
from .oracle import *
from .zk import *

LEVEL = "other"
EXPLANATION = ("Call-graph closure of every decode entry point (Deserialize impls and visitors, element codecs, validating "
               "conversions, from_bytes / from_str) over crate-local bodies; every reachable panic source (MIR asserts, panicking "
               "callees, unwrap/expect, full-vector pushes, indexing, copy_from_slice) is an obligation discharged by guards / "
               "intervals / static lengths; every allocation sink's size argument must be a constant, a const generic or bounded "
               "by min(_, K), never a value derived from a size hint or decoded integer; wire types carry no length-prefixed "
               "std collections through serde's own codecs.")

PANIC_CALLEES = ("core::panicking::", "std::rt::begin_panic", "std::rt::panic", "core::option::expect_failed", "core::result::unwrap_failed",
                 "core::slice::index::slice_", "core::str::slice_error_fail")
ALLOWED_PANIC_FREE = ()
# Foreign functions that are documented to panic (or to allocate a caller-chosen amount) for some arguments and for which
# the engine has no obligation-producing model: reaching one from a decode entry point is reported (fail closed) instead
# of being evaluated as an opaque call.  Functions with a model (push/insert on ArrayVec, index, copy_from_slice,
# split_at_mut, unwrap/expect, with_capacity/reserve/from_elem, abs, collect into ArrayVec) are decided by obligation.
import re as _re
UNMODELLED_PANICKERS = [
    (_re.compile(r"^std::vec::Vec::(remove|swap_remove|insert|drain|split_off|extend_from_within)$"), "panics when the index / range is out of bounds"),
    (_re.compile(r"^std::vec::Vec::(resize|resize_with)$"), "allocates a caller-chosen number of elements"),
    (_re.compile(r"^std::collections::VecDeque::(insert|swap|drain|split_off|rotate_left|rotate_right|resize|resize_with)$"), "panics when the index is out of bounds / allocates a caller-chosen amount"),
    (_re.compile(r"^core::slice::(split_at|rotate_left|rotate_right|clone_from_slice|swap_with_slice|swap|copy_within|windows|rchunks|rchunks_exact|chunks_mut|chunks_exact_mut|select_nth_unstable)$"),
     "panics when the position / length argument does not fit the slice"),
    (_re.compile(r"^arrayvec::ArrayVec::(extend|remove|swap_remove|drain)$|^arrayvec::ArrayString::(push|push_str)$|^arrayvec::ArrayVec::from_iter$"),
     "panics when the fixed capacity is exceeded / the index is out of bounds"),
    (_re.compile(r"::(unwrap_unchecked|unwrap_err|expect_err|unwrap_err_unchecked)$"), "panics (or is undefined behaviour) on the other variant"),
    (_re.compile(r"^std::string::String::(insert|insert_str|remove|drain|split_off|replace_range)$|::repeat$"), "panics on a bad index / allocates a caller-chosen amount"),
    (_re.compile(r"::(pow|next_power_of_two|ilog|ilog2|ilog10|div_euclid|rem_euclid|isqrt)$"), "integer helper that panics on overflow / zero in this build"),
    (_re.compile(r"^std::iter::Iterator::product$"), "integer product panics on overflow in this build"),
]
GROWING = ("std::collections::", "std::string::String", "std::vec::Vec")


def tainted(S, t):
    """Does an allocation size derive from untrusted input (size hints, decoded values)?"""
    bad = []

    def walk(x):
        if not isinstance(x, tuple) or not x:
            return
        if x[0] == "call":
            q = x[1]
            if "size_hint" in q or "next_element" in q or "next_value" in q or "deserialize" in q or q.endswith("::len"):
                bad.append(q)
        if x[0] in ("mutated", "loopout", "lv", "some_iter", "elem"):
            bad.append(x[0])
        for y in x:
            walk(y)
    walk(t)
    return bad


def size_ok(S, t):
    k = t[0]
    if k in ("int", "cparam"):
        return True, "constant / const generic"
    if k == "imin":
        for x in (t[1], t[2]):
            if x[0] in ("int", "cparam"):
                return True, "bounded by min(_, %s)" % S.show(x)
    if k == "ite":
        a, wa = size_ok(S, t[2])
        b, wb = size_ok(S, t[3])
        return a and b, wa if not a else wb
    if k == "len":
        return False, "length of an input-dependent collection"
    bad = tainted(S, t)
    if bad:
        return False, "derived from untrusted input via %s" % sorted(set(bad))[:3]
    if k in ("arg", "field"):
        return False, "caller-supplied size"
    return False, "size %s is not provably bounded" % S.show(t)[:120]


def run(rep):
    prog = rep.prog
    rep.rule("entries", "decode entry points enumerated from the impl tables; their crate-local call-graph closure is analysed")
    rep.rule("no-panic", "no reachable panic source in the closure: every MIR assert / unwrap / expect / push-when-full / index / copy_from_slice obligation is discharged, no panicking callee is reachable")
    rep.rule("bounded-alloc", "every allocation sink in the closure has a size that is a constant, a const generic or min(_, K): never a size hint or decoded integer")
    rep.rule("type-graph", "no wire type has a std collection / String field decoded by serde's own length-prefixed codecs")
    entries = decode_entry_points(prog)
    rep.floor("decode entry points", len(entries), 300)
    reach = reachable_local(prog, entries)
    rep.floor("crate-local bodies on decode paths", len(reach), 340)
    rep.ok("entries", "closure", sample="%d entry points, %d reachable crate-local bodies" % (len(entries), len(reach)))
    n_sites = 0
    evaluated = 0
    for b in sorted(reach.values(), key=lambda x: x.id):
        need_eval = False
        for bi, bb in enumerate(b.blocks):
            if bb["cleanup"]:
                continue
            t = bb["term"]
            if t["k"] == "assert" and t["msg"] not in ("Misaligned", "NullPtr"):
                need_eval = True
            if t["k"] == "call":
                cd = callee_of(prog, t)
                q = cd.get("qpath", "")
                nm = cd.get("name", "")
                if any(q.startswith(p) for p in PANIC_CALLEES) or (t.get("target") is None and not cd.get("local")):
                    n_sites += 1
                    if is_unreachable_arm(b, bi):
                        rep.ok("no-panic", "%s@%s" % (nm, short(b)), sample="panicking callee only on a statically unreachable arm", nontrivial=False)
                    else:
                        rep.fail("no-panic", "%s@%s" % (q.split("::")[-1], short(b)),
                                 "decode-reachable %s calls the panicking function %s" % (b.path, q), site=b.loc(t.get("ln")))
                if not cd.get("local"):
                    for rx, why_p in UNMODELLED_PANICKERS:
                        if rx.search(q):
                            n_sites += 1
                            rep.fail("no-panic", "unmodelled:%s@%s" % (q.split("::")[-1], short(b)),
                                     "decode-reachable %s calls %s, which %s; the analysis has no model that bounds its arguments (fail closed)" % (b.path, q, why_p),
                                     site=b.loc(t.get("ln")))
                            break
                if nm in ("unwrap", "expect", "push", "insert", "index", "index_mut", "copy_from_slice", "split_at", "with_capacity",
                          "reserve", "reserve_exact", "from_elem", "remove", "swap_remove", "abs", "unwrap_unchecked"):
                    need_eval = True
                if nm in ("collect", "from_iter", "extend", "extend_from_slice") and fixed_capacity_involved(b, t):
                    need_eval = True
        if not need_eval or b.kind == "Closure":
            continue
        rep.fn(b)
        S = Session(prog)
        try:
            S.eval(b)
        except Exception as e:
            rep.fail("no-panic", "eval@" + short(b), "cannot reconstruct %s to discharge its panic obligations (fail closed): %r" % (b.path, e), site=b.loc())
            continue
        evaluated += 1
        lt = {arg(i): b.locals[i] for i in range(1, b.argc + 1)}
        seen = set()
        for ob in S.eng.obligations:
            site_b = prog.bodies.get(ob["site"][0])
            k = "%s@%s" % (ob["kind"], short(site_b) if site_b else "?")
            if (k, ob["site"]) in seen:
                continue
            seen.add((k, ob["site"]))
            n_sites += 1
            if ob["kind"] == "AllocSize":
                okd, why = size_ok(S, ob["ops"][0])
                if okd:
                    rep.ok("bounded-alloc", "%s@%s" % (ob["what"], short(site_b)), sample=why)
                else:
                    rep.fail("bounded-alloc", "%s@%s" % (ob["what"], short(site_b)),
                             "%s in decode path %s allocates %s: %s" % (ob["what"], site_b.path if site_b else "?", S.show(ob["ops"][0])[:200], why),
                             site=site_b.loc(ob.get("ln")) if site_b else None)
                continue
            if ob["kind"] == "PushFull" and discharge(S, ob, lt)[0]:
                rep.ok("no-panic", k, sample=discharge(S, ob, lt)[1])
                continue
            if ob["kind"] == "PushFull":
                rep.fail("no-panic", k, "%s (panics when the fixed-capacity vector is full) is reachable while decoding in %s: an over-long sequence aborts the process" % (
                    ob["what"], site_b.path if site_b else "?"), site=site_b.loc(ob.get("ln")) if site_b else None)
                continue
            okd, why, _ = discharge(S, ob, lt)
            if okd:
                rep.ok("no-panic", k, sample=why)
            else:
                rep.fail("no-panic", k, "reachable panic while decoding (%s) in %s: %s" % (ob["kind"], site_b.path if site_b else "?", why),
                         site=site_b.loc(ob.get("ln")) if site_b else None)
        for p in S.eng.panics:
            pb = prog.bodies.get(p["site"][0])
            if pb is not None and pb.id in reach and not is_unreachable_arm(pb, p["site"][1]):
                rep.fail("no-panic", "panic:%s@%s" % (str(p["callee"]).split("::")[-1], short(pb)), "decode path can reach %s in %s" % (p["callee"], pb.path), site=pb.loc(p.get("ln")))
    rep.floor("decode-path bodies evaluated for obligations", evaluated, 1)
    # ---- type graph
    wm = wire_model(prog)
    nfield = 0
    for adt, m in sorted(wm.items()):
        rec = prog.adts[adt]
        if rec["kind"] != "Struct":
            continue
        codecs = None
        if m["reader"] is not None and m["reader"][0] == "seq":
            codecs = m["reader"][1]
        for i, f in enumerate(rec["variants"][0]["fields"]):
            nfield += 1
            t = f["t"]
            grow = growing_type(t)
            if grow and (codecs is None or i >= len(codecs) or codecs[i][0] == "plain"):
                rep.fail("type-graph", "%s.%s" % (adt.split("::")[-1], f["n"]),
                         "wire type %s has field `%s: %s` decoded by serde's own length-prefixed codec: the prefix controls allocation" % (adt.split("::")[-1], f["n"], ty_str(t)))
    rep.ok("type-graph", "fields", sample="%d fields of %d wire types: none is a Vec/String/map with a default serde codec" % (nfield, len(wm)))
    rep.assumptions += ["panics, aborts and allocations inside bincode, serde, serde_big_array, bls12_381, sha3, base64 are outside the analysed program (their documented contracts: Err on truncation, exactly N elements for BigArray)",
                        "`out of proportion to the input` is decided as: no input-controlled allocation size in crate code"]


def unmodelled_panickers_from(prog, root):
    """(body, terminator, callee path, reason) for every call to a listed conditional panicker in the crate-local
    closure of `root` (shared with C17's total-sweep)."""
    out = []
    for b in reachable_local(prog, [root]).values():
        for bi, bb in enumerate(b.blocks):
            t = bb["term"]
            if bb["cleanup"] or t["k"] != "call":
                continue
            cd = callee_of(prog, t)
            if cd.get("local"):
                continue
            q = cd.get("qpath", "")
            for rx, why_p in UNMODELLED_PANICKERS:
                if rx.search(q):
                    out.append((b, t, q, why_p))
                    break
    return out


def fixed_capacity_involved(b, t):
    """Does this collect / extend call build a fixed-capacity vector (directly or inside Result / Option)?"""
    tys = []
    d = t.get("dest")
    if d is not None:
        tys.append(b.locals[d[0]])
    for o in t.get("args", []):
        if o[0] in ("copy", "move"):
            tys.append(b.locals[o[1][0]])
    return any("ArrayVec" in ty_str(x) or "ArrayString" in ty_str(x) for x in tys if x is not None)


def short(b):
    if b is None:
        return "?"
    p = b.path
    for pre in (ZC + "::", ZA + "::"):
        p = p.replace(pre, "")
    return p[-90:]


def growing_type(t):
    if t[0] == "adt":
        if any(t[1].startswith(g) for g in GROWING) or t[1].endswith("::Vec") or t[1].endswith("::String"):
            return True
        if t[1].endswith("Box"):
            return growing_type(t[2][0]) if t[2] else False
        return False
    if t[0] in ("array", "slice"):
        return t[0] == "slice" or growing_type(t[1])
    return False


def is_unreachable_arm(b, bi):
    """`unreachable!()`-style arms after exhaustive matches are not input-reachable only if the block is
    the `otherwise` target of a switch whose listed arms cover every variant - approximated: never."""
    return False
