"""C17 - Balance and amount arithmetic is total, exact and range-preserving."""
from ..lib import *
from ..intervals import Intervals
from ..intlin import expand, exact_int, pc_regions, to_oct, Lin
from ..octagon import union_subset, witness
from ..oblig import discharge
from .oracle import *
from .zk import *

LEVEL = "other"
EXPLANATION = ("Interval abstract interpretation discharges every overflow / negation / abs / cast / unwrap obligation of the balance "
               "and amount functions for all 64-bit inputs (type invariants are used only where who-may-construct shows them "
               "established at every construction site, including derived decoders); exactness of each Ok / Err region is decided "
               "in the octagon domain (the function's path predicates as unions of octagonal constraints == the specified region) "
               "and each returned value is compared as an exact linear integer form; the scalar encoding is the ring map.")

BAL = ZA + "::Balance"
PAMT = ZA + "::PaymentAmount"
ERR = ZA + "::Error"
MAXB = (1 << 63) - 1
INV = {BAL: (0, MAXB)}


def unwrap_int(S, prog, t):
    for _ in range(4):
        if t[0] == "struct" and len(t[3]) == 1 and t[1].startswith(ZA):
            t = t[3][0]
        else:
            break
    return t


def construction_ranges(rep, adt, inv, allow_unchecked_from=()):
    """E6: every aggregate site of `adt` must store a value inside `inv` on every path reaching it."""
    prog = rep.prog
    name = adt.split("::")[-1]
    sites = who_constructs(prog, adt)
    rep.floor("construction sites of " + name, len(sites), 2)
    okall = True
    done = set()
    owners = []
    for b, bi, s in sites:
        for root in owners_of(prog, b):
            owners.append(root)
    for root in owners:
        if root.id in done:
            continue
        done.add(root.id)
        rep.fn(root)
        S = Session(prog)
        try:
            ret = S.eval(root)
        except Exception as e:
            rep.fail("invariant-established", "%s in %s" % (name, root.desc["qpath"]), "cannot evaluate constructor site: %r" % (e,), site=root.loc())
            okall = False
            continue
        lt = {arg(i): root.locals[i] for i in range(1, root.argc + 1)}
        bad = []
        nfound = 0
        terms = [ret] if ret is not None else []
        # values written through &mut arguments (visitors fill `place`) are part of the function's output
        for sym, c in S.eng.arg_cells.items():
            v = S.last_state.store.get(c)
            if v is not None and v != sym:
                terms.append(v)
        for t in terms:
            for pc, leaf in expand(S, t):
                for sv in find_structs(leaf, adt):
                    nfound += 1
                    iv = Intervals(S, lt, {})
                    iv.assume(pc)
                    r = iv.range(sv[3][0])
                    if not (inv[0] <= r[0] and r[1] <= inv[1]):
                        # relational guards (e.g. `by <= MAX - self.0`): decide in the octagon domain, assuming the
                        # invariant for values that already carry it (inductive step)
                        from ..intlin import entails_range
                        er = entails_range(S, pc, sv[3][0], inv[0], inv[1], lt, {adt: inv})
                        if not er:
                            bad.append((r, S.show(sv[3][0])[:200]))
        key = "%s in %s" % (name, root.desc["qpath"].replace(ZA + "::", ""))
        if is_preserving_copy(prog, root, adt):
            rep.ok("invariant-established", key + " (copy)", sample="field-wise copy", nontrivial=False)
        elif bad:
            okall = False
            rep.fail("invariant-established", key,
                     "%s can be constructed with a value in [%d, %d] (invariant: [%d, %d]) in %s: no range check guards this site%s" % (
                         name, bad[0][0][0], bad[0][0][1], inv[0], inv[1], root.path,
                         " (decoding path: the type derives Deserialize without validation)" if root.from_expansion else ""),
                     site=root.loc(), detail={"stored": bad[0][1]})
        elif nfound == 0 and not allow_unchecked_from:
            okall = False
            rep.fail("invariant-established", key, "construction site of %s in %s could not be reconstructed" % (name, root.path), site=root.loc())
        else:
            rep.ok("invariant-established", key, sample="stored value within [%d, %d] on every path" % inv)
    return okall


def find_structs(t, adt, acc=None):
    if acc is None:
        acc = []
    if isinstance(t, tuple) and t:
        if t[0] == "struct" and t[1] == adt:
            acc.append(t)
        for x in t:
            if isinstance(x, tuple):
                find_structs(x, adt, acc)
    return acc


def err_label(prog, payload):
    if payload[0] == "struct" and payload[1] == ERR:
        rec = prog.adts.get(ERR)
        return rec["variants"][payload[2]]["n"], (payload[3][0] if payload[3] else None)
    return "?", None


def check_function(rep, key, body, vars_, domain, spec, leaf_types, invariants):
    """spec: {label: (region as list of conjunctions of (lin dict, bound), value Lin or None)}"""
    prog = rep.prog
    S = Session(prog)
    ret = S.eval(body)
    rep.fn(body)
    # ---- totality
    for ob in S.eng.obligations:
        okd, why, used = discharge(S, ob, leaf_types, invariants)
        k = "%s/%s@%s" % (key, ob["kind"], ob["site"][0].split("::")[-1])
        if okd:
            rep.ok("total", k, sample=why)
        else:
            rep.fail("total", k, "%s can panic (%s): %s" % (key, ob["kind"], why), site=prog.bodies[ob["site"][0]].loc(ob.get("ln")))
    for p in S.eng.panics:
        rep.fail("total", "%s/panic:%s" % (key, p["callee"]), "%s can reach %s" % (key, p["callee"]), site=body.loc(p.get("ln")))
    if ret is None:
        rep.fail("exact", key, "no normal return", site=body.loc())
        return
    # ---- exactness
    got = {}
    values_ok = True
    unknown = False
    names = {v: k for k, v in vars_.items()}
    for pc, leaf in expand(S, ret):
        if leaf[0] == "struct" and leaf[1].endswith("result::Result"):
            if leaf[2] == 0:
                label, payload = "Ok", leaf[3][0]
            else:
                label, payload = err_label(prog, leaf[3][0])
        else:
            label, payload = "Ok", leaf
        regs = pc_regions(S, pc, leaf_types, invariants)
        if regs is None:
            unknown = True
            continue
        got.setdefault(label, []).extend([rename(to_oct(r), names) for r in regs])
        want_val = spec.get(label, (None, None))[1]
        if want_val is not None and payload is not None:
            iv = Intervals(S, leaf_types, invariants)
            iv.assume(pc)
            vt = unwrap_int(S, prog, payload)
            lv = exact_int(S, iv, vt)
            if lv is None or rename_lin(lv, names) != want_val:
                # only a violation if this case is reachable inside the domain
                reach = union_subset(list(vars_), [rename(to_oct(r), names) for r in regs], [], domain)
                if reach is False:
                    values_ok = False
                    rep.fail("exact", "%s/value[%s]" % (key, label), "%s returns %s on its %s path, specified %s" % (
                        key, S.show(vt)[:200], label, want_val), site=body.loc())
    if unknown:
        rep.note("%s: a path predicate is not octagonal; region exactness undecided for it (no alarm)" % key)
        rep.ok("exact", key + "/regions", sample="undecided (non-octagonal predicate)", nontrivial=False)
        return
    V = list(vars_)
    for label, (region, _v) in spec.items():
        A = got.get(label, [])
        sub1 = union_subset(V, A, region, domain)
        sub2 = union_subset(V, region, A, domain)
        if sub1 and sub2:
            rep.ok("exact", "%s/region[%s]" % (key, label), sample="%s iff %s" % (label, fmt_region(region)))
        elif sub1 is None or sub2 is None:
            rep.note("%s/%s: non-octagonal constraint, undecided" % (key, label))
        else:
            w = counterexample(V, A, region, domain) or counterexample(V, region, A, domain)
            rep.fail("exact", "%s/region[%s]" % (key, label),
                     "%s returns %s on a region different from the specification (%s); differing input: %s" % (key, label, fmt_region(region), w),
                     site=body.loc())
    for label in got:
        if label not in spec:
            if union_subset(V, got[label], [], domain) is False:
                rep.fail("exact", "%s/region[%s]" % (key, label), "%s can return the unspecified outcome %s" % (key, label), site=body.loc())
    if values_ok:
        rep.ok("exact", key + "/values", sample="returned values equal the specified linear forms on every path")


def rename(cons, names):
    out = []
    for lin, c in cons:
        out.append(({names.get(v, v): k for v, k in lin.items()}, c))
    return out


def rename_lin(l, names):
    return Lin({names.get(v, v): k for v, k in l.c.items()}, l.k)


def fmt_region(region):
    def con(c):
        lin, b = c
        return " + ".join(("%s" % v if k == 1 else "-%s" % v if k == -1 else "%d*%s" % (k, v)) for v, k in lin.items()) + " <= %d" % b
    return " or ".join("(" + " and ".join(con(c) for c in conj) + ")" for conj in region) or "never"


def counterexample(V, A, B, domain):
    import itertools
    from ..octagon import negate, conj_empty
    negB = [[negate(c) for c in conj] for conj in B]
    for a in A:
        for choice in (itertools.product(*negB) if negB else [()]):
            cons = a + domain + list(choice)
            if conj_empty(V, cons) is False:
                w = witness(V, cons)
                if w is not None:
                    return w
    return None


def run(rep):
    prog = rep.prog
    rep.rule("invariant-established", "every construction site of Balance stores a value in [0, 2^63-1] on every path (derived decoders included)")
    rep.rule("total", "every overflow / negation / abs / cast / unwrap obligation of the arithmetic functions is discharged by intervals for all 64-bit inputs")
    rep.rule("exact", "each function returns Ok exactly on the specified region with exactly the specified value, and the documented error elsewhere (octagon-domain equivalence)")
    rep.rule("encoding", "Balance::to_scalar == enc(b) and PaymentAmount::to_scalar == enc(a) as the ring map of the exact integer, on both sign branches")
    binv = construction_ranges(rep, BAL, INV[BAL])
    invariants = dict(INV) if binv else {}
    if not binv:
        rep.note("Balance invariant is NOT established at every construction site: obligations that need it are evaluated without it")
    U64 = (0, (1 << 64) - 1)
    I64 = (-(1 << 63), (1 << 63) - 1)

    def dom(**kw):
        out = []
        for v, (lo, hi) in kw.items():
            out.append(({v: 1}, hi))
            out.append(({v: -1}, -lo))
        return out
    bal_dom = (0, MAXB) if binv else U64
    # ---- constructors
    constructors(rep, invariants)
    # ---- apply
    for adt, sign in ((CUSTBAL, -1), (MERCHBAL, 1)):
        m = method(prog, adt, "apply")
        nm = adt.split("::")[-1]
        if not rep.anchor(nm + "::apply", m):
            continue
        b = fld(fld(arg(1), 0, "0"), 0, "0")
        a = fld(arg(2), 0, "0")
        lt = {arg(1): ("adt", adt, ()), arg(2): ("adt", PAMT, ())}
        # new = b + sign*a
        new = {"b": 1, "a": sign}
        neg = {"b": -1, "a": -sign}
        spec = {"Ok": ([[(neg, 0), (new, MAXB)]], Lin(new, 0)),
                "InsufficientFunds": ([[(new, -1)]], None),
                "AmountTooLarge": ([[(neg, -(MAXB + 1))]], Lin(new, 0))}
        check_function(rep, nm + "::apply", m, {"b": b, "a": a}, dom(b=bal_dom, a=I64), spec, lt, invariants)
    rest_of_run(rep, prog, invariants, binv, bal_dom, dom, U64, I64)


def _dom(**kw):
    out = []
    for v, (lo, hi) in kw.items():
        out.append(({v: 1}, hi))
        out.append(({v: -1}, -lo))
    return out


def constructors(rep, invariants):
    """Balance / CustomerBalance / MerchantBalance::try_new and PaymentAmount::pay_merchant / pay_customer accept
    exactly the magnitudes 0 ..= 2^63-1 (so every balance and every amount of the documented range is expressible)
    and store exactly that value with the right sign."""
    prog = rep.prog
    U64 = (0, (1 << 64) - 1)
    dom = _dom
    tn = method(prog, BAL, "try_new")
    if rep.anchor("Balance::try_new", tn):
        check_function(rep, "Balance::try_new", tn, {"v": arg(1)}, dom(v=U64),
                       {"Ok": ([[({"v": 1}, MAXB)]], Lin({"v": 1}, 0)),
                        "AmountTooLarge": ([[({"v": -1}, -(MAXB + 1))]], Lin({"v": 1}, 0))},
                       {arg(1): ("prim", "u64")}, invariants)
    for adt in (CUSTBAL, MERCHBAL):
        m = method(prog, adt, "try_new")
        nm = adt.split("::")[-1]
        if rep.anchor(nm + "::try_new", m):
            check_function(rep, nm + "::try_new", m, {"v": arg(1)}, dom(v=U64),
                           {"Ok": ([[({"v": 1}, MAXB)]], Lin({"v": 1}, 0)),
                            "AmountTooLarge": ([[({"v": -1}, -(MAXB + 1))]], Lin({"v": 1}, 0))},
                           {arg(1): ("prim", "u64")}, invariants)
    for fn, sign in (("pay_merchant", 1), ("pay_customer", -1)):
        m = method(prog, PAMT, fn)
        if rep.anchor("PaymentAmount::" + fn, m):
            check_function(rep, "PaymentAmount::" + fn, m, {"v": arg(1)}, dom(v=U64),
                           {"Ok": ([[({"v": 1}, MAXB)]], Lin({"v": sign}, 0)),
                            "AmountTooLarge": ([[({"v": -1}, -(MAXB + 1))]], Lin({"v": 1}, 0))},
                           {arg(1): ("prim", "u64")}, invariants)


def rest_of_run(rep, prog, invariants, binv, bal_dom, dom, U64, I64):
    # ---- try_add
    m = method(prog, MERCHBAL, "try_add")
    if rep.anchor("MerchantBalance::try_add", m):
        x = fld(fld(arg(1), 0, "0"), 0, "0")
        y = fld(fld(arg(2), 0, "0"), 0, "0")
        lt = {arg(1): ("adt", MERCHBAL, ()), arg(2): ("adt", CUSTBAL, ())}
        s = {"m": 1, "c": 1}
        spec = {"Ok": ([[(s, MAXB)]], Lin(s, 0)), "AmountTooLarge": ([[({"m": -1, "c": -1}, -(MAXB + 1))]], Lin(s, 0))}
        check_function(rep, "MerchantBalance::try_add", m, {"m": x, "c": y}, dom(m=bal_dom, c=bal_dom), spec, lt, invariants)
    encodings(rep, invariants)
    sweep(rep, invariants)


def encodings(rep, invariants, amounts=True):
    """into_inner returns the stored integer; Balance::to_scalar and PaymentAmount::to_scalar are the ring map of the
    exact integer (injective on the documented ranges) and cannot panic."""
    prog = rep.prog
    # ---- into_inner / to_scalar / to_i64
    for adt in (CUSTBAL, MERCHBAL):
        nm = adt.split("::")[-1]
        ii = method(prog, adt, "into_inner")
        ts = method(prog, adt, "to_scalar")
        if rep.anchor(nm + "::into_inner", ii) and rep.anchor(nm + "::to_scalar", ts):
            S = Session(prog)
            v = S.eval(ii)
            rep.fn(ii)
            rep.fn(ts)
            lt = {arg(1): ("adt", adt, ())}
            iv = Intervals(S, lt, invariants)
            lv = exact_int(S, iv, v) if v is not None else None
            bterm = fld(fld(arg(1), 0, "0"), 0, "0")
            if lv == Lin({bterm: 1}, 0):
                rep.ok("exact", nm + "::into_inner", sample="returns the stored integer unchanged")
            else:
                rep.fail("exact", nm + "::into_inner", "into_inner does not return the stored balance: %s" % (S.show(v) if v else None), site=ii.loc())
            S2 = Session(prog)
            e = S2.eval(ts)
            if e is not None and S2.canon(e) == ("enc", S2.canon(bterm)):
                rep.ok("encoding", nm + "::to_scalar", sample="Scalar::from(balance): ring map of the integer")
            else:
                rep.fail("encoding", nm + "::to_scalar", "to_scalar is not Scalar::from(balance): %s" % (S2.show(e) if e else None), site=ts.loc())
    ts = method(prog, PAMT, "to_scalar")
    if amounts and rep.anchor("PaymentAmount::to_scalar", ts):
        rep.fn(ts)
        S = Session(prog)
        e = S.eval(ts)
        a = fld(arg(1), 0, "0")
        lt = {arg(1): ("adt", PAMT, ())}
        for ob in S.eng.obligations:
            okd, why, _ = discharge(S, ob, lt, invariants)
            k = "PaymentAmount::to_scalar/%s" % ob["kind"]
            if okd:
                rep.ok("total", k, sample=why)
            else:
                rep.fail("total", k, "PaymentAmount::to_scalar can panic for an amount that can be decoded from the wire (%s): %s" % (ob["kind"], why), site=ts.loc(ob.get("ln")))
        okenc = e is not None
        for pc, leaf in (expand(S, e) if e is not None else []):
            iv = Intervals(S, lt, invariants)
            iv.assume(pc)
            c = S.canon(leaf)
            val = None
            if c[0] == "enc":
                val = exact_int(S, iv, strip_enc(S, leaf, 1))
            elif c[0] == "poly":
                # -enc(x)
                items = list(c[1])
                if len(items) == 1 and items[0][1] == -1 and len(items[0][0]) == 1 and items[0][0][0][0][0] == "enc":
                    x = exact_int(S, iv, strip_enc(S, leaf, -1))
                    val = x.scale(-1) if x is not None else None
            if val != Lin({a: 1}, 0):
                okenc = False
        if okenc:
            rep.ok("encoding", "PaymentAmount::to_scalar", sample="enc(a) for a >= 0, -enc(|a|) for a < 0, exact on both branches")
        else:
            rep.fail("encoding", "PaymentAmount::to_scalar", "scalar encoding of an amount is not the ring map of the integer on every branch: %s" % (S.show(e)[:400] if e else None), site=ts.loc())


def sweep(rep, invariants):
    prog = rep.prog
    # ---- sweep: every hand-written method / trait impl of the four arithmetic types is total
    rep.rule("total-sweep", "every hand-written inherent method or trait-impl method whose self type is Balance / CustomerBalance / MerchantBalance / PaymentAmount has all its panic obligations discharged for all inputs")
    nsweep = 0
    for b in sorted(prog.bodies.values(), key=lambda x: x.id):
        if b.kind == "Closure" or b.from_expansion or b.desc.get("container") != "impl":
            continue
        st = b.desc.get("self_ty")
        if st is None or st[0] != "adt" or st[1] not in (BAL, CUSTBAL, MERCHBAL, PAMT):
            continue
        if b.vis != "pub" and b.desc.get("trait") is None:
            continue        # crate-internal helper: its arguments are whatever its callers pass; analysed inlined in them
        nsweep += 1
        S = Session(prog)
        try:
            S.eval(b)
        except Exception as e:
            rep.fail("total-sweep", short_name(b), "cannot reconstruct %s to discharge its panic obligations (fail closed): %r" % (b.path, e), site=b.loc())
            continue
        rep.fn(b)
        lt = {arg(i): b.locals[i] for i in range(1, b.argc + 1)}
        bad = []
        for ob in S.eng.obligations:
            okd, why, _ = discharge(S, ob, lt, invariants)
            if not okd:
                bad.append((ob, why))
        pan = [p for p in S.eng.panics]
        from .c16 import unmodelled_panickers_from
        unm = unmodelled_panickers_from(prog, b)
        for ub, ut, uq, uwhy in unm:
            rep.fail("total-sweep", "%s/unmodelled:%s" % (short_name(b), uq.split("::")[-1]),
                     "%s reaches %s (in %s), which %s; no model bounds its arguments (fail closed)" % (b.path, uq, ub.path, uwhy), site=ub.loc(ut.get("ln")))
        if not bad and not pan and not unm:
            rep.ok("total-sweep", short_name(b), sample="%d obligation(s) discharged, no panicking callee" % len(S.eng.obligations), nontrivial=bool(S.eng.obligations))
        for ob, why in bad:
            rep.fail("total-sweep", "%s/%s" % (short_name(b), ob["kind"]), "%s can panic (%s): %s" % (b.path, ob["kind"], why), site=b.loc(ob.get("ln")))
        for p_ in pan:
            rep.fail("total-sweep", "%s/panic" % short_name(b), "%s can reach the panicking callee %s" % (b.path, p_["callee"]), site=b.loc(p_.get("ln")))
    rep.floor("arithmetic-type methods swept", nsweep, 16)
    rep.assumptions += ["Scalar::from(u64) is the ring homomorphism Z -> F_q restricted to [0, 2^64) (bls12_381 contract)"]


def short_name(b):
    st = b.desc.get("self_ty")
    owner = st[1].split("::")[-1] if st is not None and st[0] == "adt" else "?"
    tr = b.desc.get("trait")
    return "%s::%s%s" % (owner, b.desc.get("name"), (" (" + tr.split("::")[-1] + ")") if tr else "")


def strip_enc(S, t, sign):
    """The integer term x inside from_int(x) / (zero - from_int(x))."""
    if t[0] == "from_int":
        return t[1]
    if t[0] == "sub" and t[1] in (("zero",),) and t[2][0] == "from_int":
        return t[2][1]
    if t[0] == "neg" and t[1][0] == "from_int":
        return t[1][1]
    return ("?",)


def value_encoding(rep, amounts=True):
    """Shared necessary condition of the zkAbacus statements: the integers the parties agree on (balances, amounts)
    enter the proofs through the exact, injective ring map - otherwise two different ledgers satisfy one statement."""
    from ..core import RuleView
    rep.rule("value-encoding", "necessary condition shared with C17: Balance::to_scalar = enc(b), PaymentAmount::to_scalar = enc(a) on both sign branches, into_inner returns the stored integer; a lossy or sign-confused encoding lets a proof for one ledger be accepted for another")
    encodings(RuleView(rep, {"encoding": "value-encoding", "exact": "value-encoding", "total": "value-encoding"}), dict(INV), amounts=amounts)
