"""C18 - Pay tokens and closing signatures can never stand in for each other."""
from ..lib import *
from ..transcript import hasher_items, flat_atoms
from .oracle import *
from .zk import *

LEVEL = "other"
EXPLANATION = ("The Nonce invariant (!= close tag) is established at its single construction site, on every path and for every "
               "randomness stream (the generator's rejection loop can only leave through that site's Ok arm); the two message "
               "layouts differ exactly in the nonce/close-tag slot; ChannelId::new absorbs all five inputs into the one hasher "
               "whose digest it returns and calls nothing non-deterministic.")


def site_establishes_invariant(prog, root):
    """Every Nonce aggregate in the value `root` returns is built under guards (path predicate + sampling
    assumptions) that imply n != CLOSE_SCALAR."""
    from ..intlin import expand
    from .c01 import find_structs
    S = Session(prog)
    try:
        ret = S.eval(root)
    except Exception:
        return False
    if ret is None:
        return False
    found = 0
    for pc, leaf in expand(S, ret):
        for nv in find_structs(leaf, NONCE):
            found += 1
            ne = S.alg.bdd.NOT(S.alg.eq(nv[3][0], ("const", CLOSE_CONST)))
            guard = S.alg.nb(pc)
            if under_assumptions(S, S.alg.bdd.OR(S.alg.bdd.NOT(guard), ne)) != 1:
                return False
    return found > 0


def run(rep):
    prog = rep.prog
    from .c06 import id_encoding
    id_encoding(rep)
    rep.rule("nonce-invariant", "every Nonce value built anywhere differs from CLOSE_SCALAR: single guarded construction site; Nonce::new returns only values that passed that guard; decoding goes through it")
    rep.rule("layouts", "State and CloseState messages agree on all slots but one, which holds the nonce resp. the constant close tag")
    rep.rule("channel-id", "ChannelId::new is a digest over all five inputs (public key: all five element groups by whole-array loops), with no non-deterministic callee")
    # ---- nonce
    from .c15 import try_from_impl, UNCHECKED
    tf = try_from_impl(prog, NONCE, lambda t: t[0] == "adt" and t[1] == UNCHECKED[NONCE])
    sites = who_constructs(prog, NONCE)
    rep.floor("Nonce construction sites", len(sites), 1)
    for b, bi, s in sites:
      for root in owners_of(prog, b, stop=lambda r: tf is not None and r.id == tf.id):
        if tf is not None and root.id == tf.id:
            rep.ok("nonce-invariant", "site:" + root.desc["name"], sample="constructed in the validating conversion")
        elif is_preserving_copy(prog, root, NONCE):
            rep.ok("nonce-invariant", "copy:" + str(root.desc.get("trait")), sample="field-wise copy", nontrivial=False)
        elif site_establishes_invariant(prog, root):
            rep.ok("nonce-invariant", "site:" + root.desc.get("qpath", "?")[-60:],
                   sample="every Nonce value this function can yield satisfies n != CLOSE_SCALAR under the guards on its path")
        else:
            rep.fail("nonce-invariant", "site:" + root.desc.get("qpath", "?")[-60:], "a Nonce is constructed outside its validating conversion, in %s, without a guard that excludes the close tag" % b.path, site=b.loc())
    if rep.anchor("TryFrom<UncheckedNonce> for Nonce", tf):
        S = Session(prog)
        r = S.eval(tf)
        rep.fn(tf)
        is_ok = S.alg.nb(S.eng.eq_int(S.eng.discr(r), 0))
        want = S.alg.bdd.NOT(S.alg.eq(fld(arg(1), 0), ("const", CLOSE_CONST)))
        okp = S.eng.proj_field(("down", r, 0), 0)
        if is_ok == want and S.same(okp, ("struct", NONCE, 0, (fld(arg(1), 0),))):
            rep.ok("nonce-invariant", "validator", sample="Ok(Nonce(n)) iff n != CLOSE_SCALAR")
        else:
            rep.fail("nonce-invariant", "validator", "the nonce validator accepts under %s" % explain(S, is_ok)[:300], site=tf.loc())
    nn = method(prog, NONCE, "new")
    if rep.anchor("Nonce::new", nn):
        S = Session(prog)
        v = S.eval(nn)
        rep.fn(nn)
        ne = S.alg.bdd.NOT(S.alg.eq(S.eng.proj_field(v, 0), ("const", CLOSE_CONST))) if v is not None else 0
        # `assumed` facts exist only for sole-exit sampling constructs (loop with one way out, stream filter/find): the value
        # returned is a draw for which the guard held, whatever the randomness stream
        if v is not None and under_assumptions(S, ne) == 1:
            rep.ok("nonce-invariant", "Nonce::new", sample="the only way out of the sampling construct is guarded by n != CLOSE_SCALAR on the returned n: holds for every randomness stream")
        else:
            rep.fail("nonce-invariant", "Nonce::new", "Nonce::new can return a nonce equal to the close tag for some randomness stream: %s" % (S.show(v) if v else None), site=nn.loc())
    rec = prog.adts.get(NONCE)
    if rec and any(f["vis"] == "pub" for f in rec["variants"][0]["fields"]):
        rep.fail("nonce-invariant", "field-visibility", "Nonce has a public field")
    # ---- layouts
    lay = layouts(rep)
    if lay:
        diff = [i for i, (a, b) in enumerate(zip(lay["state"], lay["close"])) if a != b]
        if len(diff) == 1 and lay["state"][diff[0]] == "nonce" and lay["close"][diff[0]] == "close" and "?" not in lay["state"] + lay["close"] and lay["state_n"] == lay["close_n"]:
            rep.ok("layouts", "state/close", sample="slot %d: nonce vs CLOSE_SCALAR; other slots %s" % (diff[0], [a for a in lay["state"] if a != "nonce"]))
        else:
            rep.fail("layouts", "state/close", "layouts do not differ exactly in the nonce/close-tag slot: %s vs %s" % (lay["state"], lay["close"]))
    # ---- channel id
    cn = method(prog, CHANNELID, "new")
    tb = method(prog, PK, "to_bytes")
    if rep.anchor("ChannelId::new", cn) and rep.anchor("PublicKey::to_bytes", tb):
        rep.fn(cn)
        rep.fn(tb)
        S = Session(prog)
        v = S.eval(cn)
        inner = S.eng.proj_field(v, 0) if v is not None else None
        digs = collect_heads(S, inner, "digest") if inner is not None else []
        okc = False
        why = ""
        if len(digs) == 1:
            items = hasher_items(S, digs[0][1])
            atoms = flat_atoms(items)
            used = set()

            def walk(t):
                if isinstance(t, tuple):
                    if t and t[0] == "arg":
                        used.add(t[1])
                    for x in t:
                        walk(x)
            for a in atoms:
                walk(a)
            okc = used == {1, 2, 3, 4, 5} and not any(it[0] in ("each?", "loop?", "base") for it in items)
            why = "inputs reaching the hash: %s; items %d" % (sorted(used), len(items))
        # public key bytes cover all five groups
        S2 = Session(prog)
        bv = S2.eval(tb)
        pkr = public_key_roles(rep)
        cov = set()
        if bv is not None and pkr:
            txt = S2.canon(bv)
            for r, i in pkr.items():
                if contains_field(txt, i):
                    cov.add(r)
        okb = pkr is not None and cov == set(pkr)
        nondet = [callee_of(prog, t).get("qpath") for b_, bi, t, cd, od in calls_in(prog, cn) if any(x in callee_of(prog, t).get("qpath", "") for x in ("rand", "time", "env", "random"))]
        if okc and okb and not nondet:
            rep.ok("channel-id", "ChannelId::new", sample="digest(merchant randomness, customer randomness, pk bytes (g1,Y,g2,X~,Y~), merchant account, customer account)")
        else:
            rep.fail("channel-id", "ChannelId::new", "channel id does not bind all five inputs deterministically: %s ; pk groups covered %s ; non-deterministic callees %s" % (why, sorted(cov), nondet), site=cn.loc())
    rep.assumptions += ["collision resistance of SHA3-256; a signature valid on one layout fails the other except with probability 1/q (C07 coordinate coefficients)"]


def contains_field(t, idx):
    if isinstance(t, tuple) and t:
        if t[0] == "field" and t[1] == ("arg", 1) and t[2] == idx:
            return True
        return any(contains_field(x, idx) for x in t)
    return False
