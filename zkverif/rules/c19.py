"""C19 - Generated keys and parameters are well-formed for every randomness stream."""
from ..lib import *
from .oracle import *
from .zk import *

LEVEL = "other"
EXPLANATION = ("Guards hold on ALL paths (every randomness stream): each generator's returned term is reconstructed with its "
               "rejection loops summarised as `value such that guard`, the key-generation wiring is compared with R_keygen, and each "
               "decode-time validator is evaluated on the generated value and simplified to TRUE under the loop guards "
               "(non-zero scalar times non-identity element is non-identity).")


def run(rep):
    prog = rep.prog
    rep.rule("non-identity-loop", "random_non_identity returns only under the guard `not is_identity` on the returned value")
    rep.rule("keygen-wiring", "KeyPair::new: one g1 from a non-identity loop handed to both halves; x and every y_i from non-zero loops; X1 = x*g1; g2 from a non-identity loop; Y_i = y_i*g1, Y~_i = y_i*g2 over the same y; X~ = x*g2; pk built from that sk")
    rep.rule("pedersen-new", "PedersenParameters::new: h and each of the N generators come from non-identity loops")
    rep.rule("generated-validates", "the decode-time validator of each generated type accepts the generated value identically (under the loop guards)")
    rep.rule("merchant-config", "merchant::Config::new composes exactly the three generators")
    rni = prog.free_fn(ZC + "::common::random_non_identity")
    if rep.anchor("common::random_non_identity", rni):
        rep.fn(rni)
        S = Session(prog)
        v = S.eval(rni)
        if v is not None and S.canon(v)[0] == "rand" and under_assumptions(S, nonzero(S, v)) == 1 and len(S.eng.loops) == 1:
            rep.ok("non-identity-loop", "random_non_identity", sample="returns g only after `!g.is_identity()` held for that g")
        else:
            rep.fail("non-identity-loop", "random_non_identity", "random_non_identity can return a value that did not pass the identity test: %s" % (S.show(v) if v else None), site=rni.loc())
    pkr = public_key_roles(rep)
    skr = secret_key_roles(rep)
    kpp = keypair_parts(prog)
    kn = method(prog, KP, "new")
    if rep.anchor("KeyPair::new", kn) and pkr and skr and kpp:
        rep.fn(kn)
        S = Session(prog)
        kp = S.eval(kn)
        ski, pki = kpp
        ok1 = kp is not None and kp[0] == "struct"
        if ok1:
            sk, pk = kp[3][ski], kp[3][pki]
            x, ys, x1 = sk[3][skr["x"]], sk[3][skr["ys"]], sk[3][skr["x1"]]
            g1, y1s, g2, x2, y2s = (pk[3][pkr[k]] for k in ("g1", "y1s", "g2", "x2", "y2s"))
            u = fresh_uid()
            facts = {
                "g1 fresh non-identity": S.canon(g1)[0] == "rand" and under_assumptions(S, nonzero(S, g1)) == 1,
                "g2 fresh non-identity": S.canon(g2)[0] == "rand" and under_assumptions(S, nonzero(S, g2)) == 1 and S.canon(g2) != S.canon(g1),
                "x non-zero draw": S.canon(x)[0] == "rand" and under_assumptions(S, nonzero(S, x)) == 1,
                "y_i non-zero draws": S.canon(ys)[0] == "V" and S.canon(ys)[1][0] == "rand" and under_assumptions(S, nonzero(S, ("E", S.canon(ys)))) in (1,) or
                                       (S.canon(ys)[0] == "V" and under_assumptions(S, nonzero(S, S.canon(ys)[1])) == 1),
                "X1 = x*g1": S.same(x1, ("mul", g1, x)),
                "X~ = x*g2": S.same(x2, ("mul", g2, x)),
                "Y_i = y_i*g1": S.same(y1s, ("vmap", u, ("mul", g1, ("elem", u, 0)), (("vals", ys),), "N")),
                "Y~_i = y_i*g2": S.same(y2s, ("vmap", u, ("mul", g2, ("elem", u, 0)), (("vals", ys),), "N")),
            }
            bad = [k for k, v in facts.items() if not v]
            if not bad:
                rep.ok("keygen-wiring", "KeyPair::new", sample="; ".join(facts))
            else:
                rep.fail("keygen-wiring", "KeyPair::new", "key generation violates R_keygen: %s ; generated value %s" % (bad, S.show(kp)[:600]), site=kn.loc())
            # validators accept the generated halves
            from .c15 import try_from_impl, UNCHECKED
            for nm, adt, val, un in (("PublicKey", PK, pk, UNCHECKED[PK]), ("SecretKey", SK, sk, UNCHECKED[SK])):
                tf = try_from_impl(prog, adt, lambda t, un=un: t[0] == "adt" and t[1] == un)
                if rep.anchor("TryFrom<Unchecked%s>" % nm, tf):
                    r = S.call(tf, [("struct", un, 0, val[3])])
                    is_ok = under_assumptions(S, S.alg.nb(S.eng.eq_int(S.eng.discr(r), 0))) if r is not None else 0
                    if is_ok == 1:
                        rep.ok("generated-validates", nm, sample="decode-time validation of a generated %s normalises to TRUE" % nm)
                    else:
                        rep.fail("generated-validates", nm, "a freshly generated %s can fail its own decode-time validation: residual %s" % (nm, explain(S, is_ok)[:400]), site=kn.loc())
        else:
            rep.fail("keygen-wiring", "KeyPair::new", "KeyPair::new does not return a plain aggregate", site=kn.loc())
    pedersen_new(rep)
    # signatures made with generated keys: sigma1 from non-identity loop (C07 producer-term) -> decoder accepts
    from .c07 import producers_and_chains
    producers_and_chains(rep, only=("Signature::new", "sign"))
    # range parameters: C13 params-new
    from . import c13
    rep.rule("params-new", "RangeConstraintParameters::new signs exactly 0..U-1 in index order with one key pair whose public half is stored (shared with C13)")
    c13.params_new(rep)
    mc = method(prog, MCFG, "new")
    if rep.anchor("merchant::Config::new", mc):
        rep.fn(mc)
        callees = sorted(set(callee_of(prog, t).get("qpath", "") for b_, bi, t, cd, od in calls_in(prog, mc)))
        want = [ZC + "::pedersen::PedersenParameters::new", ZC + "::pointcheval_sanders::KeyPair::new", ZC + "::proofs::range::RangeConstraintParameters::new"]
        got = [c for c in callees if c.endswith("::new") and c.startswith(ZC)]
        if sorted(got) == sorted(want):
            rep.ok("merchant-config", "merchant::Config::new", sample="calls exactly KeyPair::new, PedersenParameters::new, RangeConstraintParameters::new")
        else:
            rep.fail("merchant-config", "merchant::Config::new", "merchant configuration is not generated by the three library generators: %s" % got, site=mc.loc())
    rep.assumptions += ["termination of the rejection loops (probability-1 liveness) and uniformity are not static facts",
                        "prime-order group: non-zero scalar times non-identity element is non-identity"]


def pedersen_new(rep):
    """PedersenParameters::new: h and the N generators are N+1 separate draws from the non-identity loop (a commitment
    under dependent generators, e.g. g_0 == h, is not binding), and the generated value passes its decode-time validator."""
    prog = rep.prog
    pn = method(prog, PARAMS, "new")
    if rep.anchor("PedersenParameters::new", pn):
        rep.fn(pn)
        S = Session(prog)
        pv = S.eval(pn)
        h, gs = params_roles(S, pv) if pv is not None else (None, None)
        okp = False
        if h is not None:
            cg = S.canon(gs)
            okp = (S.canon(h)[0] == "rand" and under_assumptions(S, nonzero(S, h)) == 1 and cg[0] == "V" and cg[1][0] == "rand"
                   and cg[2] == "N" and under_assumptions(S, nonzero(S, cg[1])) == 1
                   and S.canon(h)[:3] != cg[1][:3])        # h is its own draw, not one of the g_i
        if okp:
            rep.ok("pedersen-new", "PedersenParameters::new", sample="h and N generators, each from its own non-identity loop")
            from .c15 import try_from_impl, UNCHECKED
            tf = try_from_impl(prog, PARAMS, lambda t: t[0] == "adt" and t[1] == UNCHECKED[PARAMS])
            if rep.anchor("TryFrom<UncheckedPedersenParameters>", tf) and pv[0] == "struct":
                r = S.call(tf, [("struct", UNCHECKED[PARAMS], 0, pv[3])])
                is_ok = under_assumptions(S, S.alg.nb(S.eng.eq_int(S.eng.discr(r), 0))) if r is not None else 0
                if is_ok == 1:
                    rep.ok("generated-validates", "PedersenParameters", sample="validation of generated parameters normalises to TRUE")
                else:
                    rep.fail("generated-validates", "PedersenParameters", "generated Pedersen parameters can fail decode-time validation: %s" % explain(S, is_ok)[:300], site=pn.loc())
        else:
            rep.fail("pedersen-new", "PedersenParameters::new", "a generator is not its own draw from the non-identity loop (h and the g_i must be N+1 independent draws): %s" % (S.show(pv)[:400] if pv else None), site=pn.loc())


def independent_generators(rep):
    from ..core import RuleView
    rep.rule("params-independent", "necessary condition shared with C19: PedersenParameters::new returns h and g_1..g_N as N+1 separate fresh non-identity draws - with g_i == h (or any known relation) a commitment opens to other messages, so `opens only to what was committed` / `token only against the right pair` fail although every equation is checked exactly")
    pedersen_new(RuleView(rep, {"pedersen-new": "params-independent", "generated-validates": "params-independent"}))
