"""C20 - A customer restored from storage at any step continues exactly as the original."""
from ..lib import *
from ..serdeinfo import *
from .oracle import *
from .zk import *
from .c15 import codecs_equal, twin_equal, proxy_conversion_positional

LEVEL = "other"
EXPLANATION = ("Structural necessary conditions for faithful restore: (1) for the five customer stages and every type reachable "
               "through their fields, the extracted serializer emits every declared field in the order and codec the deserializer "
               "reads (no skipped / defaulted field), (2) every validated type in that closure is produced by generators / "
               "transitions that imply its decode-time check, (3) no stage method reads state outside (self, arguments, rng): no "
               "statics, thread-locals, clocks or environment in the crate-local call-graph closure of the customer API.")

CUST = ZA + "::customer"
STAGES = [CUST + "::" + n for n in ("Requested", "Inactive", "Ready", "Started", "Locked")]
DENY = ("std::time::", "std::env::", "std::thread::", "std::sync::atomic", "std::fs::", "std::net::", "std::process::",
        "rand::thread_rng", "rand::rngs::thread", "getrandom::", "std::collections::hash_map::RandomState", "chrono::")


def type_closure(prog, roots):
    seen = set()
    work = list(roots)
    while work:
        a = work.pop()
        if a in seen or a not in prog.adts:
            continue
        seen.add(a)
        for v in prog.adts[a]["variants"]:
            for f in v["fields"]:
                for x in adts_in(f["t"]):
                    if is_workspace(x):
                        work.append(x)
    return seen


def adts_in(t):
    if t[0] == "adt":
        yield t[1]
        for a in t[2]:
            if isinstance(a, tuple) and a and a[0] != "const":
                yield from adts_in(a)
    elif t[0] in ("ref", "ptr"):
        yield from adts_in(t[2])
    elif t[0] in ("array", "slice"):
        yield from adts_in(t[1])
    elif t[0] == "tuple":
        for a in t[1]:
            yield from adts_in(a)


def run(rep):
    prog = rep.prog
    rep.rule("codec-symmetric", "every type stored with a customer stage is written completely and read back field-for-field with the same codec")
    rep.rule("generated-decodes", "every validated type in the stored closure is only ever produced satisfying its decode-time check")
    rep.rule("no-hidden-state", "customer API methods read nothing but self, their arguments and the rng (no statics / thread-locals / clocks / environment)")
    wm = wire_model(prog)
    clo = type_closure(prog, STAGES)
    rep.floor("types stored with customer stages", len(clo), 20)
    for adt in sorted(clo):
        rec = prog.adts[adt]
        nm = adt.split("::")[-1]
        m = wm.get(adt)
        if m is None or m["writer"] is None or m["reader"] is None:
            rep.fail("codec-symmetric", nm, "stored type %s has no reconstructible Serialize/Deserialize pair" % nm)
            continue
        if rec["kind"] != "Struct":
            continue
        nf = len(rec["variants"][0]["fields"])
        w = m["writer"]
        if [fi for fi, _ in w] != list(range(nf)):
            rep.fail("codec-symmetric", nm, "%s is stored with fields %s of %d: a field is skipped / reordered, the restored state differs" % (nm, [fi for fi, _ in w], nf), site=m["ser_body"].loc())
            continue
        wc = [c for _, c in w]
        r = m["reader"]
        okc = False
        if r[0] == "seq":
            okc = wc == r[1]
        elif r[0] == "try_from":
            p = r[1]
            if p[0] == "adt" and p[1] in wm and wm[p[1]]["reader"] and wm[p[1]]["reader"][0] == "seq":
                okc = codecs_equal(wm, wc, wm[p[1]]["reader"][1])
                if okc:
                    # same-typed fields must also come back in the same slot: names/order of the decode twin and the
                    # conversion's field-to-field data flow (a positional format restores by order, a keyed one by name)
                    f1 = [(f["n"], f["t"]) for f in rec["variants"][0]["fields"]]
                    f2 = [(f["n"], f["t"]) for f in prog.adts[p[1]]["variants"][0]["fields"]]
                    pos_ok, pos_why, pb = proxy_conversion_positional(prog, adt, p)
                    if not twin_equal(prog, f1, f2, adt, p[1]):
                        rep.fail("codec-symmetric", nm, "%s is written as %s but restored through %s with fields %s: a stored field comes back in another slot" % (
                            nm, [a for a, _ in f1], p[1].split("::")[-1], [a for a, _ in f2]), site=m["de_body"].loc())
                        continue
                    if not pos_ok:
                        rep.fail("codec-symmetric", nm, "%s's restore conversion moves data between fields: %s" % (nm, pos_why), site=(pb or m["de_body"]).loc())
                        continue
            else:
                okc = wc == [("plain", ty_str(p))]
        if okc:
            rep.ok("codec-symmetric", nm, sample="%d field(s) written and read back with %s" % (nf, [c[1] for c in wc]))
        else:
            rep.fail("codec-symmetric", nm, "%s: written as %s, read as %s" % (nm, wc, r), site=m["de_body"].loc())
    # ---- every custom codec used by a stored type is a lossless, analysed writer/reader pair
    from .c15 import codec_pairs
    codec_pairs(rep, {k: v for k, v in wm.items() if k in clo}, only_used=True)
    # ---- generators imply validators
    nn = method(prog, NONCE, "new")
    if rep.anchor("Nonce::new", nn):
        S = Session(prog)
        v = S.eval(nn)
        rep.fn(nn)
        from .oracle import under_assumptions
        ne = S.alg.bdd.NOT(S.alg.eq(S.eng.proj_field(v, 0), ("const", CLOSE_CONST))) if v is not None else 0
        if v is not None and under_assumptions(S, ne) == 1:
            rep.ok("generated-decodes", "Nonce", sample="Nonce::new only returns values that passed the decoder's own check (n != CLOSE)")
        else:
            rep.fail("generated-decodes", "Nonce", "Nonce::new can return a nonce the decoder rejects (stored state would not restore)", site=nn.loc())
    from .c05 import check_pair_values
    rp = method(prog, REVPAIR, "new")
    if rep.anchor("RevocationPair::new", rp):
        from .c15 import SubReport
        check_pair_values(SubReport(rep, "generated-decodes", "RevocationPair"), rp, "producer")
    # stored balances come from try_new / apply (whole range 0 ..= 2^63-1, C17) and stored signatures passed R_ps incl.
    # sigma1 != identity (C03): the decode-time validators must accept exactly those sets, or a legitimate stored
    # stage (a channel at the edge of the range) does not restore
    from ..core import RuleView
    from .c15 import validators
    validators(RuleView(rep, {"decode-invariant": "generated-decodes"}), None, None, only={"Balance", "Signature"})
    # every *other* validated type of the stored closure: its decode-time check must be shown to accept what the
    # constructors produce; without a producer/validator argument for it the rule fails closed unless the conversion is total
    analysed = {"Balance", "Nonce", "RevocationPair", "Signature"}
    nval = 0
    for adt in sorted(clo):
        m = wm.get(adt)
        if m is None or m["reader"] is None or m["reader"][0] != "try_from":
            continue
        nval += 1
        nm = adt.split("::")[-1]
        if nm in analysed:
            continue
        _, _, pb = proxy_conversion_positional(prog, adt, m["reader"][1])
        total = False
        if pb is not None:
            try:
                S7 = Session(prog)
                r7 = S7.eval(pb)
                total = r7 is not None and S7.eng.eq_int(S7.eng.discr(r7), 1) == 0
            except Exception:
                total = False
        if total:
            rep.ok("generated-decodes", nm, sample="restore conversion of %s never rejects" % nm)
        else:
            rep.fail("generated-decodes", nm, "stored type %s is restored through a validating conversion that can reject, and the analysis has no argument that every value "
                     "its constructors produce passes it (a legitimately stored stage might not restore); known validated types: %s (fail closed)" % (nm, sorted(analysed)),
                     site=(pb or m["de_body"]).loc())
    rep.floor("validated types in the stored closure", nval, 4)
    # ---- no hidden state
    roots = []
    for b in prog.bodies.values():
        st = b.desc.get("self_ty")
        if b.desc.get("container") == "impl" and st is not None and strip_refs(st)[0] == "adt" and strip_refs(st)[1] in STAGES + [CUST + "::ClosingMessage"] \
                and b.desc.get("trait") is None:
            roots.append(b)
    rep.floor("customer API methods", len(roots), 25)
    reach = reachable_local(prog, roots)
    nbad = 0
    for b in reach.values():
        for bi, bb in enumerate(b.blocks):
            if bb["cleanup"]:
                continue
            for s in bb["stmts"]:
                if s[0] == "assign":
                    rv = s[2]
                    if rv[0] == "other" and "ThreadLocalRef" in str(rv[1]):
                        nbad += 1
                        rep.fail("no-hidden-state", "thread-local@" + b.desc.get("qpath", b.id)[-60:], "%s reads a thread-local" % b.path, site=b.loc(s[3]))
                    for o in ops_of(rv):
                        if o[0] == "const" and ("ptr" in o[1]) and not (o[1]["ty"][0] == "ref" and o[1]["ty"][2] == ("prim", "str")):
                            nbad += 1
                            rep.fail("no-hidden-state", "static@" + b.desc.get("qpath", b.id)[-60:], "%s reads a static item" % b.path, site=b.loc(s[3]))
            t = bb["term"]
            if t["k"] == "call":
                q = callee_of(prog, t).get("qpath", "")
                if any(q.startswith(d) or d in q for d in DENY):
                    nbad += 1
                    rep.fail("no-hidden-state", "%s@%s" % (q.split("::")[-1], b.desc.get("qpath", b.id)[-50:]), "%s calls %s: the stage's behaviour depends on state that is not stored" % (b.path, q), site=b.loc(t.get("ln")))
    if nbad == 0:
        rep.ok("no-hidden-state", "customer API closure", sample="%d methods, %d reachable crate-local bodies: no static / thread-local / clock / environment access" % (len(roots), len(reach)))
    rep.assumptions += ["behavioural equivalence of the restored execution is not executed: it follows from lossless storage (rule 1), decodability (rule 2) and determinism in (self, args, rng) (rule 3)",
                        "bincode's own determinism"]


def ops_of(rv):
    from ..lib import _ops_of_rv
    return _ops_of_rv(rv)
