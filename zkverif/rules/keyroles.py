"""Role binding for key material: which field of PublicKey / SecretKey holds which element of
R_keygen, computed from the key-generation code itself (never from field names)."""
from ..lib import *

PK = ZC + "::pointcheval_sanders::PublicKey"
SK = ZC + "::pointcheval_sanders::SecretKey"
KP = ZC + "::pointcheval_sanders::KeyPair"

_cache = {}


def secret_key_roles(rep):
    """{'x': i, 'ys': j, 'x1': k} from SecretKey::new(rng, g1)."""
    prog = rep.prog
    if "sk" in _cache.get(id(prog), {}):
        return _cache[id(prog)]["sk"]
    b = method(prog, SK, "new")
    if not rep.anchor("SecretKey::new", b):
        return None
    rep.fn(b)
    S = Session(prog)
    v = S.eval(b)
    roles = {}
    if v is None or v[0] != "struct":
        rep.fail("roles", "SecretKey", "SecretKey::new does not return a plain aggregate", site=b.loc())
        return None
    g1 = S.value(arg(2)) if False else arg(2)
    cands = {}
    for i, f in enumerate(v[3]):
        c = S.canon(f)
        cands[i] = c
    # x: a scalar draw; x1: g1 * x; ys: vector of draws
    for i, c in cands.items():
        if c[0] == "rand":
            roles["x"] = i
    for i, c in cands.items():
        if "x" in roles and c == S.canon(("mul", g1, v[3][roles["x"]])):
            roles["x1"] = i
        if c[0] == "V" and c[1][0] == "rand":
            roles["ys"] = i
    if set(roles) != {"x", "ys", "x1"}:
        rep.fail("roles", "SecretKey", "cannot bind (x, ys, X1) in SecretKey::new: %s" % (S.show(v),), site=b.loc())
        return None
    _cache.setdefault(id(prog), {})["sk"] = roles
    _cache[id(prog)]["sk_session"] = (S, v)
    return roles


def public_key_roles(rep):
    """{'g1','y1s','g2','x2','y2s'} -> field index, from PublicKey::from_secret_key(rng, sk, g1)."""
    prog = rep.prog
    if "pk" in _cache.get(id(prog), {}):
        return _cache[id(prog)]["pk"]
    sk = secret_key_roles(rep)
    b = method(prog, PK, "from_secret_key")
    if not rep.anchor("PublicKey::from_secret_key", b) or sk is None:
        return None
    rep.fn(b)
    S = Session(prog)
    v = S.eval(b)
    if v is None or v[0] != "struct":
        rep.fail("roles", "PublicKey", "PublicKey::from_secret_key does not return a plain aggregate", site=b.loc())
        return None
    skv = arg(2)
    g1 = arg(3)
    x = fld(skv, sk["x"])
    ys = fld(skv, sk["ys"])
    roles = {}
    rands = []
    for i, f in enumerate(v[3]):
        c = S.canon(f)
        if c == S.canon(g1):
            roles["g1"] = i
        elif c[0] == "rand":
            rands.append(i)
    if len(rands) == 1:
        roles["g2"] = rands[0]
        g2 = v[3][rands[0]]
        u = fresh_uid()
        for i, f in enumerate(v[3]):
            c = S.canon(f)
            if c == S.canon(("mul", g2, x)):
                roles["x2"] = i
            if c == S.canon(("vmap", u, ("mul", g1, ("elem", u, 0)), (("vals", ys),), "N")):
                roles["y1s"] = i
            if c == S.canon(("vmap", u, ("mul", g2, ("elem", u, 0)), (("vals", ys),), "N")):
                roles["y2s"] = i
    if set(roles) != {"g1", "y1s", "g2", "x2", "y2s"}:
        rep.fail("roles", "PublicKey", "cannot bind (g, Y, g~, X~, Y~) in PublicKey::from_secret_key: %s (bound %s)" % (
            S.show(v), sorted(roles)), site=b.loc())
        return None
    _cache.setdefault(id(prog), {})["pk"] = roles
    _cache[id(prog)]["pk_session"] = (S, v)
    return roles
