"""The oracle: reference relations of DESIGN.md section 4.1 as builders of normal-form Booleans/terms.

Written from the property statements and the cited papers, independently of the code under
analysis; code atoms enter only through *roles* (accessor results / prover wiring), never by
private field names.
"""
from ..lib import *
from .keyroles import public_key_roles, secret_key_roles

COMMIT = ZC + "::pedersen::Commitment"
PARAMS = ZC + "::pedersen::PedersenParameters"
MSG = ZC + "::Message"
BF = ZC + "::BlindingFactor"
PK = ZC + "::pointcheval_sanders::PublicKey"
SK = ZC + "::pointcheval_sanders::SecretKey"
KP = ZC + "::pointcheval_sanders::KeyPair"
SIG = ZC + "::pointcheval_sanders::Signature"
BSIG = ZC + "::pointcheval_sanders::BlindedSignature"
BMSG = ZC + "::pointcheval_sanders::BlindedMessage"
VBM = ZC + "::pointcheval_sanders::VerifiedBlindedMessage"
CP = ZC + "::proofs::commitment::CommitmentProof"
CPB = ZC + "::proofs::commitment::CommitmentProofBuilder"
SP = ZC + "::proofs::signature::SignatureProof"
SPB = ZC + "::proofs::signature::SignatureProofBuilder"
SRP = ZC + "::proofs::signaturerequest::SignatureRequestProof"
SRPB = ZC + "::proofs::signaturerequest::SignatureRequestProofBuilder"
RC = ZC + "::proofs::range::RangeConstraint"
RCB = ZC + "::proofs::range::RangeConstraintBuilder"
RCP = ZC + "::proofs::range::RangeConstraintParameters"
CHAL = ZC + "::proofs::challenge::Challenge"
CB = ZC + "::proofs::challenge::ChallengeBuilder"
CI = ZC + "::proofs::challenge::ChallengeInput"
TOPP = ZC + "::pedersen::ToPedersenParameters"


def params_roles(S, target):
    prog = S.prog
    return (S.call(method(prog, PARAMS, "h"), [target]), S.call(method(prog, PARAMS, "gs"), [target]))


def msg_vec(S, target):
    return S.call(method(S.prog, MSG, "deref", "std::ops::Deref"), [target])


def bf_scalar(S, target):
    return S.call(method(S.prog, BF, "as_scalar"), [target])


def chal_scalar(S, target):
    return S.call(method(S.prog, CHAL, "to_scalar"), [target])


def com_element(S, target):
    return S.call(method(S.prog, COMMIT, "to_element"), [target])


def contains(t, needle):
    if t == needle:
        return True
    if isinstance(t, tuple):
        return any(contains(x, needle) for x in t)
    return False


def commitment_proof_roles(rep):
    """Field indices of CommitmentProof by role {'C','T','bfr','rs'} and of the builder
    {'msg','C','bf','T','bcs','cs'}: computed from the prover's own wiring
    (generate_proof_commitments ; generate_proof_response): an atom is a *response* iff it depends
    on the challenge."""
    prog = rep.prog
    key = ("cp_roles", id(prog))
    if key in _cache:
        return _cache[key]
    gpc = method(prog, CPB, "generate_proof_commitments")
    gpr = method(prog, CPB, "generate_proof_response")
    if not (rep.anchor("CommitmentProofBuilder::generate_proof_commitments", gpc)
            and rep.anchor("CommitmentProofBuilder::generate_proof_response", gpr)):
        return None
    rep.fn(gpc)
    rep.fn(gpr)
    S = Session(prog)
    B = S.eval(gpc)
    if B is None or B[0] != "struct":
        rep.fail("roles", "CommitmentProofBuilder", "generate_proof_commitments does not return a plain aggregate", site=gpc.loc())
        return None
    msg = arg(2)
    chal = ("chal",)
    P = S.call(gpr, [B, ("struct", CHAL, 0, (chal,))])
    if P is None or P[0] != "struct":
        rep.fail("roles", "CommitmentProof", "generate_proof_response does not return a plain aggregate", site=gpr.loc())
        return None
    ftypes = [f["t"] for f in adt_fields(prog, CP)]
    roles = {}
    for i, (v, t) in enumerate(zip(P[3], ftypes)):
        dep_c = contains(v, chal)
        is_com = t[0] == "adt" and t[1] == COMMIT
        if is_com and not dep_c:
            roles["C" if contains(v, msg) else "T"] = i
        elif dep_c and ty_str(t) == "Scalar":
            roles["bfr"] = i
        elif dep_c:
            roles["rs"] = i
    if set(roles) != {"C", "T", "bfr", "rs"}:
        rep.fail("roles", "CommitmentProof", "cannot classify the fields of CommitmentProof from the prover wiring: %s" % S.show(P), site=gpr.loc())
        return None
    res = {"proof": roles, "session": S, "builder_value": B, "proof_value": P, "chal": chal}
    _cache[key] = res
    return res


_cache = {}


def R_cp(S, h, gs, c, C, T, bfr, rs, n="N"):
    """bfr*h + <gs, rs> == T + c*C   (normal-form Boolean in S.alg.bdd)"""
    lhs = r_commit(h, gs, rs, bfr, n)
    rhs = ("add", T, ("mul", C, c))
    return S.alg.eq(lhs, rhs)


def R_open(S, h, gs, bf, m, C, n="N"):
    return S.alg.eq(r_commit(h, gs, m, bf, n), C)


def nonzero(S, x):
    return S.alg.bdd.NOT(S.alg.zero_atom(S.alg.poly(x)))


def PP(S, pairs):
    """prod e(a_k, b_k) == 1"""
    return S.alg.pp([(S.canon(a), S.canon(b)) for a, b in pairs])


def R_ps(S, pk, roles, s1, s2, m, n="N"):
    x2 = fld(pk, roles["x2"])
    y2s = fld(pk, roles["y2s"])
    g2 = fld(pk, roles["g2"])
    b = S.alg.bdd
    return b.AND(nonzero(S, s1), PP(S, [(s1, ("add", x2, ip(y2s, m, n))), (s2, ("neg", g2))]))


def R_sp(S, pk, roles, c, s1, s2, C, T, bfr, rs, n="N"):
    x2 = fld(pk, roles["x2"])
    y2s = fld(pk, roles["y2s"])
    g2 = fld(pk, roles["g2"])
    b = S.alg.bdd
    r = nonzero(S, s1)
    r = b.AND(r, R_cp(S, g2, y2s, c, C, T, bfr, rs, n))
    r = b.AND(r, PP(S, [(s1, ("add", x2, C)), (s2, ("neg", g2))]))
    return r


def explain(S, node, limit=12):
    """Readable rendering of a normal-form Boolean."""
    return S.alg.bdd.to_str(node, lambda a: S.fmt(a))[:3000]


def under_assumptions(S, node, extra=()):
    """Simplify a normal-form Boolean using the guards known to hold for values that left a
    sole-exit rejection loop (e.g. `random_non_identity`) and optional extra literals."""
    b = S.alg.bdd
    asm = 1
    vm = S.eng.__dict__.get("vmaps", {})
    sub = {("idx", u): ("I",) for u in vm}
    for n in S.eng.assumed:
        asm = b.AND(asm, S.alg.nb(n))
        if sub:
            # the same guard seen from inside a vector comprehension (canonical binder)
            n2 = S.eng.bdd_subst(n, sub)
            asm = b.AND(asm, S.alg.nb(n2))
    for e in extra:
        asm = b.AND(asm, e)
    lits = b.necessary_literals(asm)
    # schematic guards: a guard established for the canonical element of a comprehension (`('I',)`)
    # holds for every index, so it also decides its instances at other index terms
    schem = [(a, pol) for a, pol in lits if mentions_I(a)]
    if schem:
        extra_l = []
        for at in all_atoms(b, node):
            for pat, pol in schem:
                if at != pat and match_schematic(pat, at):
                    extra_l.append((at, pol))
        lits = lits + extra_l
    r = node
    for a, pol in lits:
        r = b.restrict(r, a, pol)
    # quantified atoms any_i(phi): simplify phi under the same assumptions; any_i(false) == false
    memo = {}

    def go(n):
        if n < 2:
            return n
        if n in memo:
            return memo[n]
        v, lo, hi = b.nodes[n]
        atom = b.atoms[v]
        c = b.var(atom)
        if atom[0] == "any" and atom[1][0] == "B":
            inner = atom[1][1]
            for a2, pol in lits:
                inner = b.restrict(inner, a2, pol)
            inner = go(inner)
            if inner == 0:
                c = 0
            elif inner != atom[1][1]:
                c = b.var(("any", ("B", inner)))
        res = b.ite(c, go(hi), go(lo))
        memo[n] = res
        return res
    return go(r)


def sig_parts(S, sigv):
    prog = S.prog
    return (S.call(method(prog, SIG, "sigma1"), [sigv]), S.call(method(prog, SIG, "sigma2"), [sigv]))


def bsig_parts(S, sigv):
    prog = S.prog
    return (S.call(method(prog, BSIG, "sigma1"), [sigv]), S.call(method(prog, BSIG, "sigma2"), [sigv]))


def keypair_parts(prog):
    """(index of the SecretKey field, index of the PublicKey field) of KeyPair, by type."""
    fs = adt_fields(prog, KP)
    ski = [i for i, f in enumerate(fs) if f["t"][0] == "adt" and f["t"][1] == SK]
    pki = [i for i, f in enumerate(fs) if f["t"][0] == "adt" and f["t"][1] == PK]
    if len(ski) == 1 and len(pki) == 1:
        return ski[0], pki[0]
    return None


def mentions_I(t):
    if t == ("I",):
        return True
    if isinstance(t, tuple):
        return any(mentions_I(x) for x in t)
    return False


def match_schematic(pat, t, env=None):
    """Structural match where every occurrence of ('I',) in `pat` may stand for one (consistent) term."""
    if env is None:
        env = {}
    if pat == ("I",):
        if "I" in env:
            return env["I"] == t
        env["I"] = t
        return True
    if isinstance(pat, tuple) and isinstance(t, tuple):
        if len(pat) != len(t):
            return False
        return all(match_schematic(p, x, env) for p, x in zip(pat, t))
    return pat == t


def all_atoms(b, node, acc=None, seen=None):
    if acc is None:
        acc, seen = [], set()
    for a in b.support(node):
        if a in seen:
            continue
        seen.add(a)
        acc.append(a)
        if a[0] == "any" and a[1][0] == "B":
            all_atoms(b, a[1][1], acc, seen)
    return acc
