"""Shared analysis of the two zkAbacus proofs (EstablishProof, PayProof): symbolic verifier,
honest prover, transcripts, wire-form atoms.  Used by C01, C02, C04, C06, C12."""
from ..lib import *
from ..transcript import *
from .oracle import *

ZPROOFS = ZA + "::proofs"
EST = ZPROOFS + "::EstablishProof"
PAY = ZPROOFS + "::PayProof"
MCFG = ZA + "::merchant::Config"
CCFG = ZA + "::customer::Config"
STATE = ZA + "::states::State"
CLOSESTATE = ZA + "::states::CloseState"
VBS = ZA + "::states::VerifiedBlindedState"
VBCS = ZA + "::states::VerifiedBlindedCloseState"
CONTEXT = ZPROOFS + "::Context"

_cache = {}


def collect_heads(S, t, head, acc=None, seen=None):
    """All subterms with the given head, looking inside BDD conditions too."""
    if acc is None:
        acc, seen = [], set()
    if not isinstance(t, tuple) or not t or id(t) in seen:
        return acc
    seen.add(id(t))
    if t[0] == head:
        if t not in acc:
            acc.append(t)
    if t[0] == "b":
        for a in S.eng.bdd.support(t[1]):
            collect_heads(S, a, head, acc, seen)
        return acc
    if t[0] == "ite":
        for a in S.eng.bdd.support(t[1]):
            collect_heads(S, a, head, acc, seen)
    for x in t:
        if isinstance(x, tuple):
            collect_heads(S, x, head, acc, seen)
    return acc


def depends_on(S, t, head):
    return bool(collect_heads(S, t, head))


class ProofAnalysis:
    pass


def analyse(rep, which):
    """which: 'est' | 'pay'"""
    prog = rep.prog
    key = (which, id(prog))
    if key in _cache:
        return _cache[key]
    adt = EST if which == "est" else PAY
    ver = method(prog, adt, "verify")
    new = method(prog, adt, "new")
    name = adt.split("::")[-1]
    if not (rep.anchor(name + "::verify", ver) and rep.anchor(name + "::new", new)):
        _cache[key] = None
        return None
    rep.fn(ver)
    rep.fn(new)
    A = ProofAnalysis()
    A.adt, A.ver, A.new, A.name = adt, ver, new, name
    # ---- symbolic verifier
    S = Session(prog)
    A.S = S
    ret = S.eval(ver)
    A.ret = ret
    A.ver_obligations = list(S.eng.obligations)
    A.ver_panics = list(S.eng.panics)
    if ret is None:
        rep.fail("engine", name + "::verify", "verify has no normal return", site=ver.loc())
        _cache[key] = None
        return None
    A.accept = S.alg.nb(S.eng.eq_int(S.eng.discr(ret), 1))
    A.payload = S.eng.proj_field(("down", ret, 1), 0)
    digs = collect_heads(S, ret, "digest")
    A.digests = digs
    its = []
    for d in digs:
        it = hasher_items(S, d[1])
        if it not in its:
            its.append(it)
    A.items = its[0] if len(its) == 1 else None
    A.self_ty = strip_refs(ver.locals[1])
    # wire-form atoms of the proof
    A.leaves = list(type_leaves(prog, A.self_ty, arg(1)))
    _cache[key] = A
    return A


def prover(rep, A):
    """Honest prover output and its acceptance by the verifier under the honest correspondence."""
    if hasattr(A, "P"):
        return A
    prog = rep.prog
    S = Session(prog)
    A.SP = S
    new = A.new
    tcc = method(prog, MCFG, "to_customer_config")
    if not rep.anchor("merchant::Config::to_customer_config", tcc):
        A.P = None
        return A
    rep.fn(tcc)
    mcfg = ("mcfg",)
    ccfg = S.call(tcc, [mcfg])
    A.mcfg, A.ccfg = mcfg, ccfg
    rng = ("refv", ("rng",))
    ctx = ("ctx",)
    if A.name == "EstablishProof":
        state = ("state",)
        out = S.call(new, [rng, ccfg, state, ctx])
        A.prover_args = {"state": state, "ctx": ctx}
    else:
        old, st = ("old_state",), ("state",)
        tok = ("struct", ZA + "::states::PayToken", 0, (("struct", SIG, 0, (("tok1",), ("tok2",))),))
        out = S.call(new, [rng, ccfg, tok, old, st, ctx])
        A.prover_args = {"old_state": old, "state": st, "ctx": ctx, "tok": tok}
    A.prover_obligations = list(S.eng.obligations)
    A.prover_panics = list(S.eng.panics)
    A.prover_out = out
    A.P = S.eng.proj_field(out, 0) if out is not None else None
    A.prover_digests = collect_heads(S, A.P, "digest") if A.P is not None else []
    return A


def fmt_items(S, items):
    out = []
    for it in items:
        if it[0] == "item":
            out.append(S.show(it[1]))
        elif it[0] in ("each", "each?"):
            out.append("%s %s {%s}" % (it[0], [S.show(l) for l in it[1]], "; ".join(fmt_items(S, it[2]))))
        else:
            out.append(str(it)[:80])
    return out


def leaf_name(prog, path):
    """Human-readable access path of a wire atom (reporting only)."""
    parts = []
    for step in path:
        if step[0] == "each":
            parts.append("[*]")
        elif step[0] == "tuple":
            parts.append(str(step[1]))
        else:
            fs = adt_fields(prog, step[0])
            parts.append(fs[step[1]]["n"] if step[1] < len(fs) else str(step[1]))
    return ".".join(parts).replace(".[*]", "[*]")


def fs_rule(rep, pid):
    """Rule FS for the two zkAbacus proofs: every non-response atom of the wire form is absorbed
    by verify() before finish(); prover and verifier derive the same challenge term."""
    prog = rep.prog
    cr = commitment_proof_roles(rep)
    if cr is None:
        return
    roles = cr["proof"]
    for which in ("est", "pay"):
        A = analyse(rep, which)
        if A is None:
            continue
        S = A.S
        if A.items is None:
            rep.fail("fs-zkabacus", A.name + "/challenge", "%s::verify does not derive exactly one challenge digest (%d found)" % (A.name, len(A.digests)), site=A.ver.loc())
            continue
        bad = [it for it in A.items if it[0] in ("each?", "loop?", "base")]
        if bad:
            rep.fail("fs-zkabacus", A.name + "/transcript-shape", "transcript of %s::verify has a partial iteration or does not start from an empty hasher: %s" % (A.name, str(bad)[:300]), site=A.ver.loc())
        absorbed = set(flat_atoms(A.items))
        prover(rep, A)
        n_first = n_resp = 0
        for term, lt, path in A.leaves:
            by_role = any(step[0] == CP and step[1] in (roles["bfr"], roles["rs"]) for step in path)
            by_prover = None
            if A.P is not None:
                try:
                    pv = project_path(A.SP, A.P, path)
                    by_prover = depends_on(A.SP, pv, "digest")
                except Exception:
                    by_prover = None
            is_resp = by_prover if by_prover is not None else by_role
            if by_prover is not None and by_prover != by_role:
                rep.note("%s.%s: classified %s by the prover's wiring but %s by CommitmentProof roles" % (
                    A.name, leaf_name(prog, path), "response" if by_prover else "first-message", "response" if by_role else "first-message"))
            nm = leaf_name(prog, path)
            if is_resp:
                n_resp += 1
                continue
            n_first += 1
            want = S.canon(("bytes", term))
            if want in absorbed:
                rep.ok("fs-zkabacus", "%s.%s" % (A.name, nm), sample="first-message atom %s is absorbed before finish()" % nm)
            else:
                rep.fail("fs-zkabacus", "%s.%s" % (A.name, nm),
                         "%s::verify uses proof atom `%s` (not a response: it does not depend on the challenge in %s::new) "
                         "but never feeds it to the challenge hash: a prover can choose it after seeing the challenge" % (A.name, nm, A.name),
                         site=A.ver.loc(), detail={"transcript": fmt_items(S, A.items)})
        rep.extra.setdefault("fs_atoms", {})[A.name] = {"first_message": n_first, "responses": n_resp}
        # prover / verifier agreement: verify(honest proof) derives the prover's challenge term
        if A.P is not None:
            SP = A.SP
            okpv = False
            why = "prover derives %d digest(s)" % len(A.prover_digests)
            if len(A.prover_digests) == 1:
                pub = honest_public_values(rep, A)
                if pub is not None:
                    r = SP.call(A.ver, [A.P, A.mcfg, pub, A.prover_args["ctx"]])
                    A.honest_ret = r
                    vd = collect_heads(SP, r, "digest") if r is not None else []
                    pi = hasher_items(SP, A.prover_digests[0][1])
                    vis = [hasher_items(SP, d[1]) for d in vd]
                    okpv = bool(vis) and all(strip_leaves(v) == strip_leaves(pi) for v in vis)
                    if not okpv and vis:
                        vi = [v for v in vis if strip_leaves(v) != strip_leaves(pi)][0]
                        fp, fv = fmt_items(SP, pi), fmt_items(SP, vi)
                        diff = [(i, a, b) for i, (a, b) in enumerate(zip(fp, fv)) if a != b]
                        why = "%d vs %d items; first differences: %s" % (len(fp), len(fv), str(diff[:3])[:1200])
            if okpv:
                rep.ok("prover-verifier", A.name, sample="identical transcripts of %d item(s)" % len(pi))
            else:
                rep.fail("prover-verifier", A.name, "%s::new and %s::verify do not derive the same challenge for an honest proof: %s" % (A.name, A.name, why[:1500]),
                         site=A.new.loc())


def honest_public_values(rep, A):
    """The public values an honest merchant would be given for the prover's state (accessor-bound)."""
    prog = rep.prog
    S = A.SP
    if A.name == "EstablishProof":
        PV = ZPROOFS + "::EstablishProofPublicValues"
        st = A.prover_args["state"]
        vals = {}
        for nm in ("channel_id", "merchant_balance", "customer_balance"):
            m = method(prog, STATE, nm)
            if not rep.anchor("State::" + nm, m):
                return None
            vals[nm] = S.call(m, [st])
        fs = adt_fields(prog, PV)
        try:
            return ("struct", PV, 0, tuple(vals[f["n"]] for f in fs))
        except KeyError:
            rep.fail("anchor", "EstablishProofPublicValues fields", "unexpected public-value fields %s" % [f["n"] for f in fs])
            return None
    PV = ZPROOFS + "::PayProofPublicValues"
    old = A.prover_args["old_state"]
    m = method(prog, STATE, "nonce")
    if not rep.anchor("State::nonce", m):
        return None
    nonce = S.call(m, [old])
    fs = adt_fields(prog, PV)
    vals = {"old_nonce": nonce, "amount": ("amount",)}
    try:
        return ("struct", PV, 0, tuple(vals[f["n"]] for f in fs))
    except KeyError:
        rep.fail("anchor", "PayProofPublicValues fields", "unexpected public-value fields %s" % [f["n"] for f in fs])
        return None
