"""Shared analysis of the two zkAbacus proofs (EstablishProof, PayProof): symbolic verifier,
honest prover, transcripts, wire-form atoms.  Used by C01, C02, C04, C06, C12."""
from ..lib import *
from ..transcript import *
from .oracle import *

ZPROOFS = ZA + "::proofs"
EST = ZPROOFS + "::EstablishProof"
PAY = ZPROOFS + "::PayProof"
MCFG = ZA + "::merchant::Config"
CCFG = ZA + "::customer::Config"
STATE = ZA + "::states::State"
CLOSESTATE = ZA + "::states::CloseState"
VBS = ZA + "::states::VerifiedBlindedState"
VBCS = ZA + "::states::VerifiedBlindedCloseState"
CONTEXT = ZPROOFS + "::Context"

_cache = {}


def collect_heads(S, t, head, acc=None, seen=None):
    """All subterms with the given head, looking inside BDD conditions too."""
    if acc is None:
        acc, seen = [], set()
    if not isinstance(t, tuple) or not t or id(t) in seen:
        return acc
    seen.add(id(t))
    if t[0] == head:
        if t not in acc:
            acc.append(t)
    if t[0] == "b":
        for a in S.eng.bdd.support(t[1]):
            collect_heads(S, a, head, acc, seen)
        return acc
    if t[0] == "ite":
        for a in S.eng.bdd.support(t[1]):
            collect_heads(S, a, head, acc, seen)
    for x in t:
        if isinstance(x, tuple):
            collect_heads(S, x, head, acc, seen)
    return acc


def depends_on(S, t, head):
    return bool(collect_heads(S, t, head))


class ProofAnalysis:
    pass


def analyse(rep, which):
    """which: 'est' | 'pay'"""
    prog = rep.prog
    key = (which, id(prog))
    if key in _cache:
        return _cache[key]
    adt = EST if which == "est" else PAY
    ver = method(prog, adt, "verify")
    new = method(prog, adt, "new")
    name = adt.split("::")[-1]
    if not (rep.anchor(name + "::verify", ver) and rep.anchor(name + "::new", new)):
        _cache[key] = None
        return None
    rep.fn(ver)
    rep.fn(new)
    A = ProofAnalysis()
    A.adt, A.ver, A.new, A.name = adt, ver, new, name
    # ---- symbolic verifier
    S = Session(prog)
    A.S = S
    ret = S.eval(ver)
    A.ret = ret
    A.ver_obligations = list(S.eng.obligations)
    A.ver_panics = list(S.eng.panics)
    if ret is None:
        rep.fail("engine", name + "::verify", "verify has no normal return", site=ver.loc())
        _cache[key] = None
        return None
    A.accept = S.alg.nb(S.eng.eq_int(S.eng.discr(ret), 1))
    A.payload = S.eng.proj_field(("down", ret, 1), 0)
    digs = collect_heads(S, ret, "digest")
    A.digests = digs
    its = []
    for d in digs:
        it = hasher_items(S, d[1])
        if it not in its:
            its.append(it)
    A.items = its[0] if len(its) == 1 else None
    A.self_ty = strip_refs(ver.locals[1])
    # wire-form atoms of the proof
    A.leaves = list(type_leaves(prog, A.self_ty, arg(1)))
    _cache[key] = A
    return A


def honest_customer_config(rep, S, mcfg):
    """The customer configuration that belongs to a merchant configuration (the customer holds the merchant's public
    parameters).  Uses the library's own conversion when it exists; otherwise builds it field by field by type:
    the merchant's public key for the PublicKey field, the merchant's own value for every other field type."""
    prog = rep.prog
    tcc = method(prog, MCFG, "to_customer_config")
    if tcc is not None:
        rep.fn(tcc)
        return S.call(tcc, [mcfg])
    CC = ZA + "::customer::Config"
    pkm, kpk = method(prog, MCFG, "signing_keypair"), method(prog, KP, "public_key")
    mf = adt_fields(prog, MCFG)
    out = []
    for f in adt_fields(prog, CC):
        t = f["t"]
        if t[0] == "adt" and t[1] == PK and pkm is not None and kpk is not None:
            out.append(S.call(kpk, [S.call(pkm, [mcfg])]))
            continue
        same = [i for i, g in enumerate(mf) if g["t"] == t]
        if len(same) != 1:
            return None
        out.append(fld(mcfg, same[0], mf[same[0]]["n"]))
    return ("struct", CC, 0, tuple(out))


def prover(rep, A):
    """Honest prover output and its acceptance by the verifier under the honest correspondence."""
    if hasattr(A, "P"):
        return A
    prog = rep.prog
    S = Session(prog)
    A.SP = S
    new = A.new
    mcfg = ("mcfg",)
    ccfg = honest_customer_config(rep, S, mcfg)
    if not rep.anchor("customer configuration of a merchant configuration", ccfg):
        A.P = None
        return A
    A.mcfg, A.ccfg = mcfg, ccfg
    rng = ("refv", ("rng",))
    ctx = ("ctx",)
    if A.name == "EstablishProof":
        state = ("state",)
        out = S.call(new, [rng, ccfg, state, ctx])
        A.prover_args = {"state": state, "ctx": ctx}
    else:
        old, st = ("old_state",), ("state",)
        tok = ("struct", ZA + "::states::PayToken", 0, (("struct", SIG, 0, (("tok1",), ("tok2",))),))
        out = S.call(new, [rng, ccfg, tok, old, st, ctx])
        A.prover_args = {"old_state": old, "state": st, "ctx": ctx, "tok": tok}
    A.prover_obligations = list(S.eng.obligations)
    A.prover_panics = list(S.eng.panics)
    A.prover_out = out
    A.P = S.eng.proj_field(out, 0) if out is not None else None
    A.prover_digests = collect_heads(S, A.P, "digest") if A.P is not None else []
    return A


def fmt_items(S, items):
    out = []
    for it in items:
        if it[0] == "item":
            out.append(S.show(it[1]))
        elif it[0] in ("each", "each?"):
            out.append("%s %s {%s}" % (it[0], [S.show(l) for l in it[1]], "; ".join(fmt_items(S, it[2]))))
        else:
            out.append(str(it)[:80])
    return out


def leaf_name(prog, path):
    """Human-readable access path of a wire atom (reporting only)."""
    parts = []
    for step in path:
        if step[0] == "each":
            parts.append("[*]")
        elif step[0] == "tuple":
            parts.append(str(step[1]))
        else:
            fs = adt_fields(prog, step[0])
            parts.append(fs[step[1]]["n"] if step[1] < len(fs) else str(step[1]))
    return ".".join(parts).replace(".[*]", "[*]")


def fs_rule(rep, pid):
    """Rule FS for the two zkAbacus proofs: every non-response atom of the wire form is absorbed
    by verify() before finish(); prover and verifier derive the same challenge term."""
    prog = rep.prog
    cr = commitment_proof_roles(rep)
    if cr is None:
        return
    roles = cr["proof"]
    for which in ("est", "pay"):
        A = analyse(rep, which)
        if A is None:
            continue
        S = A.S
        if A.items is None:
            rep.fail("fs-zkabacus", A.name + "/challenge", "%s::verify does not derive exactly one challenge digest (%d found)" % (A.name, len(A.digests)), site=A.ver.loc())
            continue
        bad = [it for it in A.items if it[0] in ("each?", "loop?", "base")]
        if bad:
            rep.fail("fs-zkabacus", A.name + "/transcript-shape", "transcript of %s::verify has a partial iteration or does not start from an empty hasher: %s" % (A.name, str(bad)[:300]), site=A.ver.loc())
        absorbed = set(flat_atoms(A.items))
        prover(rep, A)
        n_first = n_resp = 0
        for term, lt, path in A.leaves:
            by_role = any(step[0] == CP and step[1] in (roles["bfr"], roles["rs"]) for step in path)
            by_prover = None
            if A.P is not None:
                try:
                    pv = project_path(A.SP, A.P, path)
                    by_prover = depends_on(A.SP, pv, "digest")
                except Exception:
                    by_prover = None
            is_resp = by_prover if by_prover is not None else by_role
            if by_prover is not None and by_prover != by_role:
                rep.note("%s.%s: classified %s by the prover's wiring but %s by CommitmentProof roles" % (
                    A.name, leaf_name(prog, path), "response" if by_prover else "first-message", "response" if by_role else "first-message"))
            nm = leaf_name(prog, path)
            if is_resp:
                n_resp += 1
                continue
            n_first += 1
            want = S.canon(("bytes", term))
            if want in absorbed:
                rep.ok("fs-zkabacus", "%s.%s" % (A.name, nm), sample="first-message atom %s is absorbed before finish()" % nm)
            else:
                rep.fail("fs-zkabacus", "%s.%s" % (A.name, nm),
                         "%s::verify uses proof atom `%s` (not a response: it does not depend on the challenge in %s::new) "
                         "but never feeds it to the challenge hash: a prover can choose it after seeing the challenge" % (A.name, nm, A.name),
                         site=A.ver.loc(), detail={"transcript": fmt_items(S, A.items)})
        rep.extra.setdefault("fs_atoms", {})[A.name] = {"first_message": n_first, "responses": n_resp}
        # prover / verifier agreement: verify(honest proof) derives the prover's challenge term
        if A.P is not None:
            SP = A.SP
            okpv = False
            why = "prover derives %d digest(s)" % len(A.prover_digests)
            if len(A.prover_digests) == 1:
                pub = honest_public_values(rep, A)
                if pub is not None:
                    r = SP.call(A.ver, [A.P, A.mcfg, pub, A.prover_args["ctx"]])
                    A.honest_ret = r
                    vd = collect_heads(SP, r, "digest") if r is not None else []
                    pi = hasher_items(SP, A.prover_digests[0][1])
                    vis = [hasher_items(SP, d[1]) for d in vd]
                    okpv = bool(vis) and all(strip_leaves(v) == strip_leaves(pi) for v in vis)
                    if not okpv and vis:
                        vi = [v for v in vis if strip_leaves(v) != strip_leaves(pi)][0]
                        fp, fv = fmt_items(SP, pi), fmt_items(SP, vi)
                        diff = [(i, a, b) for i, (a, b) in enumerate(zip(fp, fv)) if a != b]
                        why = "%d vs %d items; first differences: %s" % (len(fp), len(fv), str(diff[:3])[:1200])
            if okpv:
                rep.ok("prover-verifier", A.name, sample="identical transcripts of %d item(s)" % len(pi))
            else:
                rep.fail("prover-verifier", A.name, "%s::new and %s::verify do not derive the same challenge for an honest proof: %s" % (A.name, A.name, why[:1500]),
                         site=A.new.loc())


def honest_public_values(rep, A):
    """The public values an honest merchant would be given for the prover's state (accessor-bound)."""
    prog = rep.prog
    S = A.SP
    if A.name == "EstablishProof":
        PV = ZPROOFS + "::EstablishProofPublicValues"
        st = A.prover_args["state"]
        vals = {}
        for nm in ("channel_id", "merchant_balance", "customer_balance"):
            m = method(prog, STATE, nm)
            if not rep.anchor("State::" + nm, m):
                return None
            vals[nm] = S.call(m, [st])
        fs = adt_fields(prog, PV)
        try:
            return ("struct", PV, 0, tuple(vals[f["n"]] for f in fs))
        except KeyError:
            rep.fail("anchor", "EstablishProofPublicValues fields", "unexpected public-value fields %s" % [f["n"] for f in fs])
            return None
    PV = ZPROOFS + "::PayProofPublicValues"
    old = A.prover_args["old_state"]
    m = method(prog, STATE, "nonce")
    if not rep.anchor("State::nonce", m):
        return None
    nonce = S.call(m, [old])
    fs = adt_fields(prog, PV)
    vals = {"old_nonce": nonce, "amount": ("amount",)}
    try:
        return ("struct", PV, 0, tuple(vals[f["n"]] for f in fs))
    except KeyError:
        rep.fail("anchor", "PayProofPublicValues fields", "unexpected public-value fields %s" % [f["n"] for f in fs])
        return None


# ------------------------------------------------------------------ message layouts
NONCE = ZA + "::nonce::Nonce"
CHANNELID = ZA + "::states::ChannelId"
CUSTBAL = ZA + "::states::CustomerBalance"
MERCHBAL = ZA + "::states::MerchantBalance"
REVLOCK = ZA + "::revlock::RevocationLock"
REVPAIR = ZA + "::revlock::RevocationPair"
CLOSE_CONST = ZA + "::CLOSE_SCALAR"


def layouts(rep):
    """Slot layout of State::to_message and CloseState::to_message: list of roles per slot, computed
    from the encoders (`to_scalar` / `as_scalar`) applied to the public accessors."""
    prog = rep.prog
    key = ("layouts", id(prog))
    if key in _cache:
        return _cache[key]
    out = {}
    need = {"State::to_message": method(prog, STATE, "to_message"), "CloseState::to_message": method(prog, CLOSESTATE, "to_message"),
            "ChannelId::to_scalar": method(prog, CHANNELID, "to_scalar"), "Nonce::as_scalar": method(prog, NONCE, "as_scalar"),
            "CustomerBalance::to_scalar": method(prog, CUSTBAL, "to_scalar"), "MerchantBalance::to_scalar": method(prog, MERCHBAL, "to_scalar"),
            "RevocationLock::to_scalar": method(prog, REVLOCK, "to_scalar")}
    for n, b in need.items():
        if not rep.anchor(n, b):
            _cache[key] = None
            return None
        rep.fn(b)
    for which, adt in (("state", STATE), ("close", CLOSESTATE)):
        S = Session(prog)
        tm = need["State::to_message" if which == "state" else "CloseState::to_message"]
        mv = S.call(tm, [("st",)])
        vec = msg_vec(S, mv) if mv is not None else None
        cv = S.canon(vec) if vec is not None else None
        if cv is None or cv[0] != "array":
            rep.fail("layout", which, "%s::to_message is not a fixed tuple of scalars: %s" % (adt.split("::")[-1], S.show(vec) if vec else None), site=tm.loc())
            _cache[key] = None
            return None
        enc = {}
        acc = {}
        for nm in ("channel_id", "customer_balance", "merchant_balance"):
            m = method(prog, adt, nm)
            if not rep.anchor("%s::%s" % (adt.split("::")[-1], nm), m):
                _cache[key] = None
                return None
            acc[nm] = S.call(m, [("st",)])
        enc["cid"] = S.canon(S.call(need["ChannelId::to_scalar"], [acc["channel_id"]]))
        enc["cust"] = S.canon(S.call(need["CustomerBalance::to_scalar"], [acc["customer_balance"]]))
        enc["merch"] = S.canon(S.call(need["MerchantBalance::to_scalar"], [acc["merchant_balance"]]))
        lockm = method(prog, adt, "revocation_lock")
        if rep.anchor("%s::revocation_lock" % adt.split("::")[-1], lockm):
            enc["lock"] = S.canon(S.call(need["RevocationLock::to_scalar"], [S.call(lockm, [("st",)])]))
        if which == "state":
            nm_ = method(prog, STATE, "nonce")
            if rep.anchor("State::nonce", nm_):
                enc["nonce"] = S.canon(S.call(need["Nonce::as_scalar"], [S.call(nm_, [("st",)])]))
        else:
            enc["close"] = ("const", CLOSE_CONST)
        slots = []
        for e in cv[1]:
            r = [k for k, v in enc.items() if v == e]
            slots.append(r[0] if len(r) == 1 else "?")
        out[which] = slots
        out[which + "_n"] = len(slots)
    _cache[key] = out
    return out


def substitute_challenge(S, t):
    """Replace the (unique) derived challenge scalar by the opaque symbol ('chal',)."""
    frs = [x for x in collect_heads(S, t, "from_raw") if depends_on(S, x, "digest")]
    sub = {x: ("chal",) for x in frs}
    return S.eng.subst(t, sub), len(set(S.canon(x) for x in frs))


# ------------------------------------------------------------------ role binding for the zkAbacus proofs
def srp_cp_index(prog):
    r = [i for i, f in enumerate(adt_fields(prog, SRP)) if f["t"][0] == "adt" and f["t"][1] == CP]
    return r[0] if len(r) == 1 else None


def sp_indices(prog):
    cpi = [i for i, f in enumerate(adt_fields(prog, SP)) if f["t"][0] == "adt" and f["t"][1] == CP]
    bsi = [i for i, f in enumerate(adt_fields(prog, SP)) if f["t"][0] == "adt" and f["t"][1] == BSIG]
    return (cpi[0] if len(cpi) == 1 else None, bsi[0] if len(bsi) == 1 else None)


def bind_fields(rep, A):
    """Classify the direct fields of the proof struct from the honest prover's output:
       SRP fields -> 'state' | 'close' (which message they commit to), Scalar fields -> revealed
       commitment scalar of (proof, slot), other sub-proofs by type (+ which balance a range
       constraint is linked to).  Returns dict or None."""
    if hasattr(A, "bound"):
        return A.bound
    prog = rep.prog
    prover(rep, A)
    A.bound = None
    if A.P is None or A.P[0] != "struct":
        rep.fail("roles", A.name, "%s::new does not return a plain aggregate" % A.name, site=A.new.loc())
        return None
    S = A.SP
    lay = layouts(rep)
    cr = commitment_proof_roles(rep)
    if lay is None or cr is None:
        return None
    roles = cr["proof"]
    P, _ = substitute_challenge(S, A.P)
    fs = adt_fields(prog, A.adt)
    cpi = srp_cp_index(prog)
    st = A.prover_args["state"]
    tm_s, tm_c, cs_m = method(prog, STATE, "to_message"), method(prog, CLOSESTATE, "to_message"), method(prog, STATE, "close_state")
    sm = S.canon(msg_vec(S, S.call(tm_s, [st])))
    cm = S.canon(msg_vec(S, S.call(tm_c, [S.call(cs_m, [st])])))
    msgs = {"state": sm, "close": cm}
    if A.name == "PayProof":
        msgs["old"] = S.canon(msg_vec(S, S.call(tm_s, [A.prover_args["old_state"]])))
    out = {"srp": {}, "kappa": {}, "other": {}}
    srp_vals = {}
    for i, f in enumerate(fs):
        t = f["t"]
        v = P[3][i]
        if t[0] == "adt" and t[1] == SRP:
            C = S.alg.poly(com_element(S, S.eng.proj_field(S.eng.proj_field(v, cpi), roles["C"])))
            nonce_atom = sm[1][lay["state"].index("nonce")]
            close_atom = ("const", CLOSE_CONST)
            has_nonce = any(nonce_atom in [a for a, _ in m] for m in C)
            has_close = any(close_atom in [a for a, _ in m] for m in C)
            which = "state" if has_nonce and not has_close else ("close" if has_close and not has_nonce else None)
            if which is None or which in out["srp"]:
                rep.fail("roles", "%s.%s" % (A.name, f["n"]), "cannot tell whether sub-proof `%s` is about the state or the close state" % f["n"], site=A.new.loc())
                return None
            out["srp"][which] = i
            srp_vals[which] = v
        elif t[0] == "adt" and t[1] == SP:
            out["other"]["token"] = i
        elif t[0] == "adt" and t[1] == CP:
            out["other"]["revlock"] = i
        elif t[0] == "adt" and t[1] == RC:
            out["other"].setdefault("ranges", []).append(i)
    if set(out["srp"]) != {"state", "close"}:
        rep.fail("roles", A.name + ".sub-proofs", "did not find exactly one state and one close-state request proof", site=A.new.loc())
        return None
    # revealed commitment scalars: kappa such that  rs_j = c*m_j + kappa  for a sub-proof's slot j
    cands = {"close": (S.eng.proj_field(S.eng.proj_field(srp_vals["close"], cpi), roles["rs"]), cm),
             "state": (S.eng.proj_field(S.eng.proj_field(srp_vals["state"], cpi), roles["rs"]), sm)}
    if A.name == "PayProof" and "token" in out["other"]:
        tcpi, _ = sp_indices(prog)
        tv = P[3][out["other"]["token"]]
        cands["old"] = (S.eng.proj_field(S.eng.proj_field(tv, tcpi), roles["rs"]), msgs["old"])
    for i, f in enumerate(fs):
        if ty_str(f["t"]) != "Scalar":
            continue
        v = P[3][i]
        hit = []
        for pname, (rs, mv) in cands.items():
            for j in range(len(mv[1])):
                rj = S.eng.index_value(rs if rs[0] != "box" else rs[1], ("int", j))
                d = S.alg.poly(("sub", ("sub", rj, ("mul", ("chal",), mv[1][j])), v))
                if d.is_zero():
                    hit.append((pname, j))
        # equal slots of state/close share their commitment scalar: prefer the canonical (proof, slot) list
        if not hit:
            rep.fail("roles", "%s.%s" % (A.name, f["n"]), "revealed scalar `%s` is not the commitment scalar of any sub-proof slot in %s::new" % (f["n"], A.name), site=A.new.loc())
            return None
        out["kappa"][i] = hit
    A.bound = out
    A.msgs = msgs
    return out


def fs_rule_one(rep, A):
    """FS + prover/verifier agreement for one proof (same rule as in C12, restricted)."""
    class Only:
        def __init__(self, rep):
            self.__dict__["rep"] = rep

        def __getattr__(self, k):
            return getattr(self.rep, k)
    prog = rep.prog
    # reuse fs_rule but filter to this proof by temporarily analysing only it
    saved = dict(_cache)
    try:
        other = "pay" if A.name == "EstablishProof" else "est"
        _cache[(other, id(prog))] = None
        fs_rule(rep, rep.pid)
    finally:
        for k in list(_cache):
            if k[0] in ("est", "pay") and k not in saved:
                del _cache[k]
        _cache.update(saved)


def statement_binding(rep, A, which):
    """INFL: statement components that appear in no equation must reach the challenge hash."""
    prog = rep.prog
    S = A.S
    if A.items is None:
        return
    absorbed = set(flat_atoms(A.items))
    pkr = public_key_roles(rep)
    pkm = method(prog, MCFG, "signing_keypair")
    kpk = method(prog, KP, "public_key")
    if pkr is None or pkm is None or kpk is None:
        return
    pk = S.call(kpk, [S.call(pkm, [arg(2)])])
    checks = []
    arr_len = {}
    if "key" in which:
        for r in ("g1", "g2", "x2"):
            checks.append(("key." + r, S.canon(("bytes", fld(pk, pkr[r])))))
        for r in ("y1s", "y2s"):
            checks.append(("key." + r, S.canon(("bytes", ("E", S.canon(fld(pk, pkr[r])))))))
    pvadt = strip_refs(A.ver.locals[3])[1]
    fsn = {f["n"]: i for i, f in enumerate(adt_fields(prog, pvadt))}
    enc = {"cid": ("channel_id", CHANNELID, "to_scalar"), "cust": ("customer_balance", CUSTBAL, "to_scalar"),
           "merch": ("merchant_balance", MERCHBAL, "to_scalar"), "nonce": ("old_nonce", NONCE, "as_scalar")}
    for w in which:
        if w in enc:
            fname, adt, fn = enc[w]
            if fname not in fsn:
                rep.fail("statement-binding", A.name + "." + w, "public value `%s` is missing from %s" % (fname, pvadt))
                continue
            m = method(prog, adt, fn)
            checks.append((w, S.canon(("bytes", S.call(m, [fld(arg(3), fsn[fname])])))))
    if "ctx" in which:
        cm = method(prog, CONTEXT, "as_bytes")
        if rep.anchor("Context::as_bytes", cm):
            checks.append(("context", S.canon(S.call(cm, [arg(4)]))))
    if "range-params" in which:
        rpm = method(prog, MCFG, "range_constraint_parameters")
        if rep.anchor("merchant::Config::range_constraint_parameters", rpm):
            rp = S.call(rpm, [arg(2)])
            for term, lt, path in type_leaves(prog, ("adt", RCP, ()), rp):
                checks.append(("range-params." + leaf_name(prog, path), S.canon(("bytes", term))))
                if term[0] == "E" and lt[0] == "array" and isinstance(lt[2], int):
                    arr_len[S.canon(("bytes", term))] = lt[2]
    # length of the merchant key's element arrays (const generic argument of its KeyPair)
    key_n = None
    for f in adt_fields(prog, MCFG):
        if f["t"][0] == "adt" and f["t"][1] == KP and f["t"][2] and f["t"][2][0][0] == "const" and isinstance(f["t"][2][0][1], int):
            key_n = f["t"][2][0][1]

    def reaches(name, want):
        if want in absorbed:
            return True
        # a whole array may be absorbed element by element (index loop over a statically known length)
        n_el = key_n if name.startswith("key.") else arr_len.get(want)
        if n_el and want[0] == "bytes" and want[1][0] == "E":
            return all(S.canon(("bytes", ("at", want[1][1], ("int", k)))) in absorbed for k in range(n_el))
        return False
    for name, want in checks:
        if reaches(name, want):
            rep.ok("statement-binding", A.name + "/" + name, sample="%s reaches the challenge hash" % name)
        else:
            rep.fail("statement-binding", A.name + "/" + name,
                     "statement component `%s` never reaches the challenge hash of %s::verify: replacing it cannot change the challenge" % (name, A.name),
                     site=A.ver.loc())
