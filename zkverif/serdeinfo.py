"""E7 for codecs: wire models of every (de)serializable type, extracted from the derive-generated and
hand-written serde bodies in the MIR facts (never from attributes or source text).

For each workspace ADT:
  writer: ordered list of (field index, codec) emitted by its `Serialize::serialize`
  reader: ordered list of (element type, codec) consumed by its visitor's `visit_seq`, or
          ('try_from', proxy type) when `Deserialize::deserialize` decodes a proxy and converts.
A codec is ('with', <self type of the SerializeElement impl / helper fn id>) or ('plain', type).
"""
from .facts import strip_refs, ty_str
from .lib import callee_of, ZC, ZA

SER = "_::_serde::Serialize"
DE = "_::_serde::Deserialize"
VIS = "_::_serde::de::Visitor"
SE = ZC + "::serde::SerializeElement"


def is_workspace(path):
    return path.startswith(ZC + "::") or path.startswith(ZA + "::")


def impl_bodies(prog, trait, name):
    out = {}
    for b in prog.bodies.values():
        d = b.desc
        if d.get("container") == "impl" and d.get("trait") == trait and d.get("name") == name:
            st = d.get("self_ty")
            if st is not None and st[0] == "adt":
                out.setdefault(st[1], []).append(b)
    return out


def ordered_calls(prog, body):
    """Call terminators in CFG order along non-cleanup edges (DFS, successors in MIR order)."""
    seen = set()
    out = []
    stack = [0]
    order = []
    while stack:
        b = stack.pop()
        if b in seen or body.blocks[b]["cleanup"]:
            continue
        seen.add(b)
        order.append(b)
        t = body.blocks[b]["term"]
        k = t["k"]
        succ = []
        if k in ("goto", "drop"):
            succ = [t["target"]]
        elif k == "switch":
            succ = [x for _, x in t["arms"]] + [t["otherwise"]]
        elif k in ("call", "assert") and t.get("target") is not None:
            succ = [t["target"]]
        for s in reversed(succ):
            stack.append(s)
    for b in sorted(order):
        t = body.blocks[b]["term"]
        if t["k"] == "call":
            out.append((b, t))
    return out


def codec_of_wrapper(prog, wrapper_adt, trait, fn):
    """The codec function a `__SerializeWith` / `__DeserializeWith` wrapper forwards to."""
    for b in prog.bodies.values():
        d = b.desc
        if d.get("container") == "impl" and d.get("trait") == trait and d.get("name") == fn:
            st = d.get("self_ty")
            if st is not None and st[0] == "adt" and st[1] == wrapper_adt:
                for bi, t in ordered_calls(prog, b):
                    cd = callee_of(prog, t)
                    od = prog.defs.get(t.get("callee"), {})
                    nm = cd.get("name")
                    if nm in ("serialize", "deserialize") and (cd.get("local") or od.get("local")):
                        # SerializeElement impl for a type, or a helper module function
                        if cd.get("trait") == SE or od.get("trait") == SE:
                            st2 = cd.get("self_ty")
                            ga = t.get("gargs") or ()
                            if st2 is None and ga:
                                st2 = ga[0]
                            return ("with", "SerializeElement:" + (ty_str(st2) if st2 else "?"))
                        return ("with", "fn:" + cd.get("qpath", "?").rsplit("::", 1)[0])
                    if cd.get("trait") == SE or od.get("trait") == SE:
                        ga = t.get("gargs") or ()
                        return ("with", "SerializeElement:" + (ty_str(ga[0]) if ga else "?"))
    return None


def field_of_block(body, bi):
    """Index of the `self` field referenced in a block (`&(*_1).f`)."""
    for s in body.blocks[bi]["stmts"]:
        if s[0] == "assign" and s[2][0] == "ref":
            l, proj = s[2][2]
            if l == 1 and len(proj) >= 2 and proj[0][0] == "*" and proj[1][0] == "f":
                return proj[1][1]
            if l == 1 and len(proj) >= 1 and proj[0][0] == "f":
                return proj[0][1]
    return None


def wire_model(prog):
    """{adt path: {'writer': [...], 'reader': [...] | ('try_from', proxy), ...}}"""
    ser = impl_bodies(prog, SER, "serialize")
    de = impl_bodies(prog, DE, "deserialize")
    models = {}
    for adt in set(ser) | set(de):
        if not is_workspace(adt) or adt not in prog.adts:
            continue
        name = adt.split("::")[-1]
        if name.startswith("__"):
            continue
        m = {"adt": adt, "writer": None, "reader": None, "ser_body": None, "de_body": None}
        # ---- writer
        for b in ser.get(adt, []):
            m["ser_body"] = b
            w = []
            kind = None
            for bi, t in ordered_calls(prog, b):
                od = prog.defs.get(t.get("callee"), {})
                q = od.get("qpath", "")
                nm = od.get("name")
                if nm in ("serialize_struct", "serialize_tuple_struct", "serialize_newtype_struct", "serialize_struct_variant",
                          "serialize_unit_variant", "serialize_newtype_variant", "serialize_tuple_variant", "serialize_unit_struct"):
                    kind = nm
                if nm == "serialize_newtype_struct" or (nm in ("serialize_field", "serialize_element") and "ser::Serialize" in q):
                    ga = t.get("gargs") or ()
                    vt = ga[-1] if ga else None
                    fi = field_of_block(b, bi)
                    codec = ("plain", ty_str(vt) if vt else "?")
                    if vt is not None and vt[0] == "adt" and vt[1].split("::")[-1].startswith("__SerializeWith"):
                        codec = codec_of_wrapper(prog, vt[1], SER, "serialize") or ("with", "?")
                    w.append((fi, codec))
                if nm in ("skip_field",):
                    w.append(("skip", None))
                if od.get("trait") == SER and nm == "serialize" and b.from_expansion and kind is None and not w:
                    # `#[serde(transparent)]`: the derive forwards to the single field's own Serialize; on the wire this
                    # is what serialize_newtype_struct produces (formats without struct names, and serde_json)
                    fi = field_of_block(b, bi)
                    ga = t.get("gargs") or ()
                    if fi is not None and ga:
                        w.append((fi, ("plain", ty_str(ga[0]))))
                        kind = "transparent"
                if od.get("trait") == SE and nm == "serialize":
                    # transparent wrappers calling the element codec directly
                    ga = t.get("gargs") or ()
                    w.append((field_of_block(b, bi), ("with", "SerializeElement:" + (ty_str(ga[0]) if ga else "?"))))
            m["writer"] = w
            m["ser_kind"] = kind
        # ---- reader
        for b in de.get(adt, []):
            m["de_body"] = b
            calls = ordered_calls(prog, b)
            proxy = None
            for bi, t in calls:
                cd = callee_of(prog, t)
                od = prog.defs.get(t.get("callee"), {})
                if od.get("qpath", "").endswith("Deserialize::deserialize") or cd.get("trait") == DE:
                    ga = t.get("gargs") or ()
                    st = cd.get("self_ty")
                    if st is not None and st[0] == "adt" and st[1] != adt and is_workspace(st[1]):
                        proxy = st
                    elif ga and ga[0][0] == "adt" and ga[0][1] != adt and is_workspace(ga[0][1]):
                        proxy = ga[0]
            uses_try_from = False
            for cid in prog.closures_of.get(b.id, []):
                for bi, t in prog.bodies[cid].calls():
                    od = prog.defs.get(t.get("callee"), {})
                    if od.get("qpath", "").endswith("TryFrom::try_from"):
                        uses_try_from = True
            for bi, t in calls:
                od = prog.defs.get(t.get("callee"), {})
                if od.get("qpath", "").endswith("TryFrom::try_from"):
                    uses_try_from = True
            if proxy is None and uses_try_from:
                # proxy of a foreign / primitive type (e.g. `#[serde(try_from = "u64")]`)
                for bi, t in calls:
                    od = prog.defs.get(t.get("callee"), {})
                    if od.get("qpath", "").endswith("Deserialize::deserialize"):
                        ga = t.get("gargs") or ()
                        if ga and ga[0] != ("adt", adt, ()):
                            proxy = ga[0]
            if proxy is not None and uses_try_from:
                m["reader"] = ("try_from", proxy)
                continue
            if proxy is not None:
                m["reader"] = ("proxy", proxy)
                continue
            # visitor's visit_seq
            r = visitor_reader(prog, b)
            if r is None and b.from_expansion and adt in prog.adts and prog.adts[adt]["kind"] == "Struct" \
                    and len(prog.adts[adt]["variants"][0]["fields"]) == 1:
                # `#[serde(transparent)]` on a one-field struct: the derive reads the field's own Deserialize and wraps it
                for bi, t in calls:
                    od = prog.defs.get(t.get("callee"), {})
                    ga = t.get("gargs") or ()
                    if od.get("qpath", "").endswith("Deserialize::deserialize") and ga and \
                            ty_str(ga[0]) == ty_str(prog.adts[adt]["variants"][0]["fields"][0]["t"]):
                        r = ("seq", [("plain", ty_str(ga[0]))], True)
            m["reader"] = r
        models[adt] = m
    return models


def visitor_reader(prog, de_body):
    """Sequence of elements read by the visitor declared inside `de_body` (visit_seq)."""
    prefix = de_body.id.rsplit("::", 1)[0] + "::deserialize"
    vs = [b for b in prog.bodies.values() if b.id.startswith(prefix + "::") and b.desc.get("name") == "visit_seq"
          and b.desc.get("trait") == VIS]
    nt = [b for b in prog.bodies.values() if b.id.startswith(prefix + "::") and b.desc.get("name") == "visit_newtype_struct"
          and b.desc.get("trait") == VIS]
    if not vs:
        return None
    # the struct visitor (not the field-identifier visitor)
    out = []
    for v in vs:
        r = []
        for bi, t in ordered_calls(prog, v):
            od = prog.defs.get(t.get("callee"), {})
            if od.get("name") == "next_element" and "SeqAccess" in od.get("qpath", ""):
                ga = t.get("gargs") or ()
                et = ga[-1] if ga else None
                codec = ("plain", ty_str(et) if et else "?")
                if et is not None and et[0] == "adt" and et[1].split("::")[-1].startswith("__DeserializeWith"):
                    codec = codec_of_wrapper(prog, et[1], DE, "deserialize") or ("with", "?")
                r.append(codec)
        if len(r) >= len(out):
            out = r
    return ("seq", out, bool(nt))


def decode_entry_points(prog):
    """Bodies that start decoding of untrusted input."""
    out = []
    for b in prog.bodies.values():
        d = b.desc
        tr = d.get("trait")
        if d.get("container") == "impl" and tr in (DE, VIS) and d.get("name") != "expecting":
            out.append(b)
        elif d.get("container") == "impl" and tr == SE and d.get("name") == "deserialize":
            out.append(b)
        elif d.get("container") == "impl" and tr == "std::convert::TryFrom" and d.get("name") == "try_from" and b.argc == 1 \
                and b.locals[1][0] == "adt" and b.locals[1][1].split("::")[-1].startswith("Unchecked"):
            out.append(b)
        elif d.get("container") == "impl" and tr == "std::str::FromStr" and d.get("name") == "from_str" and is_workspace(b.id):
            out.append(b)
        elif b.kind == "Fn" and b.desc.get("name") == "deserialize" and is_workspace(b.id) and "serde" in b.id:
            out.append(b)
        elif d.get("name") == "from_bytes" and d.get("container") == "impl" and is_workspace(b.id) and b.vis == "pub":
            out.append(b)
    return out


def reachable_local(prog, roots):
    """Crate-local bodies reachable from `roots` through resolved calls and closures."""
    seen = {}
    work = list(roots)
    while work:
        b = work.pop()
        if b.id in seen:
            continue
        seen[b.id] = b
        for cid in prog.closures_of.get(b.id, []):
            work.append(prog.bodies[cid])
        for bi, t in b.calls():
            for key in ("resolved", "callee"):
                did = t.get(key)
                if did in prog.bodies:
                    work.append(prog.bodies[did])
            # function items passed as values
            for a in t["args"]:
                if a[0] == "const" and "fn" in a[1] and a[1]["fn"] in prog.bodies:
                    work.append(prog.bodies[a[1]["fn"]])
    return seen
