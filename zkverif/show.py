"""Readable dump of a body (debug aid): python3 -m zkverif.show <substring of path>"""
import sys
from . import facts
from .facts import ty_str


def place_s(p):
    s = "_%d" % p[0]
    for e in p[1]:
        if e[0] == "*":
            s = "(*%s)" % s
        elif e[0] == "f":
            s = "%s.%s" % (s, e[2] if e[2] else e[1])
        elif e[0] == "idx":
            s = "%s[_%d]" % (s, e[1])
        elif e[0] == "cidx":
            s = "%s[%s%d]" % (s, "-" if e[2] else "", e[1])
        elif e[0] == "down":
            s = "(%s as %s)" % (s, e[2] or e[1])
        elif e[0] == "sub":
            s = "%s[%d..%s%d]" % (s, e[1], "-" if e[3] else "", e[2])
        else:
            s = "%s.?%s" % (s, e[0])
    return s


def op_s(o, prog=None):
    if o[0] in ("copy", "move"):
        return ("move " if o[0] == "move" else "") + place_s(o[1])
    if o[0] == "const":
        c = o[1]
        if "fn" in c:
            return "fn:" + c["fn"]
        if "item" in c:
            return "const:" + c["item_path"] + (":promoted%d" % c["promoted"] if "promoted" in c else "")
        if "int" in c:
            return "%d_%s" % (c["int"], ty_str(c["ty"]))
        if "str" in c:
            return repr(c["str"])
        if "zst" in c:
            return "zst:" + ty_str(c["ty"])
        return "const?:" + ty_str(c["ty"])
    return "opaque"


def rv_s(rv):
    k = rv[0]
    if k == "use":
        return op_s(rv[1])
    if k == "ref":
        return ("&mut " if rv[1] else "&") + place_s(rv[2])
    if k == "rawptr":
        return "&raw " + place_s(rv[2])
    if k == "cast":
        return "%s as %s (%s)" % (op_s(rv[2]), ty_str(rv[4]), rv[1])
    if k == "binop":
        return "%s(%s, %s)" % (rv[1], op_s(rv[2]), op_s(rv[3]))
    if k == "unop":
        return "%s(%s)" % (rv[1], op_s(rv[2]))
    if k == "discr":
        return "discriminant(%s)" % place_s(rv[1])
    if k == "repeat":
        return "[%s; %s]" % (op_s(rv[1]), rv[2])
    if k == "agg":
        if rv[1] == "adt":
            return "%s::%s{%s}" % (rv[2].split("::")[-1], rv[4], ", ".join(op_s(x) for x in rv[6]))
        if rv[1] == "closure":
            return "closure %s [%s]" % (rv[2], ", ".join(op_s(x) for x in rv[3]))
        if rv[1] == "array":
            return "[%s]" % ", ".join(op_s(x) for x in rv[3])
        return "%s(%s)" % (rv[1], ", ".join(op_s(x) for x in rv[2]))
    return "other:" + str(rv[1])[:80]


def show(b, prog, out=sys.stdout):
    w = out.write
    w("fn %s  [%s]  generics=%s argc=%d vis=%s %s\n" % (b.path, b.id, [g["n"] for g in b.generics], b.argc, b.vis, b.loc()))
    for i, t in enumerate(b.locals):
        n = b.local_name(i)
        w("   let _%d: %s%s\n" % (i, ty_str(t), "  // " + n if n else ""))
    for i, bb in enumerate(b.blocks):
        if bb["cleanup"]:
            continue
        w("  bb%d:\n" % i)
        for s in bb["stmts"]:
            if s[0] == "assign":
                w("     %s = %s\n" % (place_s(s[1]), rv_s(s[2])))
            else:
                w("     %s\n" % (s,))
        t = bb["term"]
        k = t["k"]
        if k in ("call", "tailcall"):
            cal = t.get("resolved") or t.get("callee")
            d = prog.defs.get(cal, {})
            name = d.get("qpath", cal)
            ga = t.get("rargs") if "resolved" in t else t.get("gargs")
            w("     %s = %s<%s>(%s) -> %s   [%s]\n" % (
                place_s(t["dest"]) if "dest" in t else "_", name,
                ", ".join(ty_str(a) for a in (ga or ())),
                ", ".join(op_s(a) for a in t["args"]),
                "bb%s" % t.get("target"), t.get("ikind")))
        elif k == "switch":
            w("     switch %s -> %s otherwise bb%d\n" % (op_s(t["x"]), ", ".join("%d:bb%d" % a for a in t["arms"]), t["otherwise"]))
        elif k == "goto":
            w("     goto bb%d\n" % t["target"])
        elif k == "drop":
            w("     drop(%s) -> bb%d\n" % (place_s(t["p"]), t["target"]))
        elif k == "assert":
            w("     assert(%s == %s, %s %s) -> bb%d\n" % (op_s(t["cond"]), t["expected"], t["msg"], [op_s(x) for x in t["ops"]], t["target"]))
        else:
            w("     %s\n" % k)


if __name__ == "__main__":
    prog = facts.load()
    pat = sys.argv[1]
    for b in prog.bodies.values():
        if pat in b.path or pat in b.id:
            show(b, prog)
            print()
