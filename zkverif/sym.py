"""E4: value reconstruction over MIR (gated single-assignment terms).

Every MIR local of a body gets one term; control-flow joins become `ite(cond, a, b)` gates with
BDD conditions; crate-local callees are inlined; loops are summarised by their loop-carried
recurrences (no unrolling, no path enumeration, no solver).  The result of `eval_fn` is the term of
the return value plus the final contents of every cell reachable through `&mut` parameters, the
list of panic obligations met on the way, and the loop summaries.
"""
import itertools
from .bdd import BDD
from .facts import ty_str, strip_refs

MAX_DEPTH = 14


class Unsupported(Exception):
    pass


class State:
    __slots__ = ("store", "pc")

    def __init__(self, store, pc):
        self.store = store
        self.pc = pc

    def fork(self, pc=None):
        return State(dict(self.store), self.pc if pc is None else pc)


class Frame:
    __slots__ = ("body", "cells", "genv", "callpath", "depth", "returns")

    def __init__(self, body, cells, genv, callpath, depth):
        self.body = body
        self.cells = cells
        self.genv = genv
        self.callpath = callpath
        self.depth = depth
        self.returns = []


class LoopInfo:
    def __init__(self):
        self.uid = None
        self.body = None
        self.header = None
        self.kind = None       # 'iter' | 'generic'
        self.src = None        # iterator shape for 'iter' loops
        self.init = {}
        self.step = {}
        self.cells = []
        self.exits = []        # (cond_bdd, target)
        self.site = None


UNDEF = ("undef",)
UNIT = ("unit",)
UNROLL_MAX = 8


def is_ref(v):
    return isinstance(v, tuple) and v and v[0] in ("ref", "refv")


class Engine:
    def __init__(self, prog, models=None):
        self.prog = prog
        self.bdd = BDD()
        self.ncell = itertools.count(1)
        self.nuid = itertools.count(1)
        self.obligations = []   # dicts: kind, pc, cond, site, ...
        self.panics = []        # dicts: pc, site, callee
        self.loops = {}         # uid -> LoopInfo
        self.unknown_calls = {}  # qpath -> count
        self.binders = []       # open binder uids (loops / vmaps)
        self.lens = {}          # vector term -> length (int or param name)
        self.notes = []
        self.inlined = set()    # body ids evaluated
        from . import models as _m
        self.models = models or _m.MODELS
        self.no_inline = set()
        self.trace_calls = []   # (callpath, callee id) for evidence
        self.assumed = []       # BDD nodes known to hold after sole-exit loops (rejection sampling)
        self.unroll = {}        # loop uid -> (iteration index, trip count, shape) while a small loop is unrolled

    # ------------------------------------------------------------- booleans
    def B(self, node):
        return ("b", node)

    def tobdd(self, v):
        """Boolean value -> BDD node."""
        if v[0] == "b":
            return v[1]
        if v[0] == "int":
            return 1 if v[1] else 0
        if v[0] == "ite":
            return self.bdd.ite(v[1], self.tobdd(v[2]), self.tobdd(v[3]))
        return self.bdd.var(v)

    def mk_ite(self, c, a, b):
        if c == 1:
            return a
        if c == 0:
            return b
        if a == b:
            return a
        if a[0] == "b" or b[0] == "b":
            return ("b", self.bdd.ite(c, self.tobdd(a), self.tobdd(b)))
        if a[0] == b[0] and a[0] in ("struct", "tuple", "array") and a[:-1] == b[:-1] and len(a[-1]) == len(b[-1]):
            return a[:-1] + (tuple(self.mk_ite(c, x, y) for x, y in zip(a[-1], b[-1])),)
        if a[0] == "box" and b[0] == "box":
            return ("box", self.mk_ite(c, a[1], b[1]))
        # collapse ite(c, x, ite(c, y, z)) etc.
        if a[0] == "ite" and a[1] == c:
            a = a[2]
        if b[0] == "ite" and b[1] == c:
            b = b[3]
        if a == b:
            return a
        return ("ite", c, a, b)

    def eq_int(self, x, k):
        """BDD node for `x == k` where x is an integer/bool-valued term and k a Python int."""
        if x[0] == "int":
            return 1 if x[1] == k else 0
        if x[0] == "b":
            return x[1] if k else self.bdd.NOT(x[1])
        if x[0] == "ite":
            return self.bdd.ite(x[1], self.eq_int(x[2], k), self.eq_int(x[3], k))
        return self.bdd.var(("eq", x, ("int", k)))

    # ------------------------------------------------------------- values
    def discr(self, v):
        if v[0] == "struct":
            return ("int", v[2])
        if v[0] == "ite":
            return self.mk_ite(v[1], self.discr(v[2]), self.discr(v[3]))
        if v[0] == "b":
            return v
        return ("discr", v)

    def proj_field(self, v, i, name=None):
        k = v[0]
        if k in ("struct", "tuple"):
            fs = v[-1]
            if i < len(fs):
                return fs[i]
            return ("field", v, i, name)
        if k == "closure":
            return v[2][i]
        if k == "down":
            base, variant = v[1], v[2]
            if base[0] == "struct":
                if base[2] == variant:
                    return base[3][i]
                return UNDEF
            if base[0] == "ite":
                a = self.proj_field(("down", base[2], variant), i, name)
                b = self.proj_field(("down", base[3], variant), i, name)
                if a == UNDEF:
                    return b
                if b == UNDEF:
                    return a
                return self.mk_ite(base[1], a, b)
            return ("vfield", base, variant, i)
        if k == "ite":
            return self.mk_ite(v[1], self.proj_field(v[2], i, name), self.proj_field(v[3], i, name))
        if k == "box" or k == "boxp":
            return ("boxp", v[1])
        if k == "upd":
            if v[2] == i:
                return v[3]
            return self.proj_field(v[1], i, name)
        if k == "undef":
            return UNDEF
        return ("field", v, i, name)

    def index_value(self, v, i):
        """v[i] for an array-like value; i is a term (('int', n) for constants)."""
        k = v[0]
        if k == "array" and i[0] == "int":
            if 0 <= i[1] < len(v[1]):
                return v[1][i[1]]
            return ("oob", v, i)
        if k == "repeat":
            return v[1]
        if k == "ite":
            return self.mk_ite(v[1], self.index_value(v[2], i), self.index_value(v[3], i))
        if k == "box":
            return self.index_value(v[1], i)
        if k == "vmap":
            return self.vmap_at(v, i)
        if k == "slice_of" and v[2][0] == "int" and i[0] == "int":
            return self.index_value(v[1], ("int", v[2][1] + i[1]))
        if k == "upd_idx":
            if v[2] == i:
                return v[3]
            if v[2][0] == "int" and i[0] == "int":
                return self.index_value(v[1], i)
        return ("at", v, i)

    def vmap_at(self, v, i):
        uid, body, srcs = v[1], v[2], v[3]
        sub = {}
        for j, s in enumerate(srcs):
            sub[("elem", uid, j)] = self.src_at(s, i)
        sub[("idx", uid)] = i
        return self.subst(body, sub)

    def src_at(self, s, i):
        if s[0] == "revd":
            from .models import shape_len
            n = shape_len(self, s[1])
            if isinstance(n, int) and i[0] == "int":
                return self.src_at(s[1], ("int", n - 1 - i[1]))
            return ("at", ("revd", s[1]), i)
        if s[0] == "range":
            lo = s[1]
            if lo == ("int", 0):
                return i
            return ("iadd", lo, i)
        if s[0] in ("refs", "vals"):
            return self.index_value(s[1], i)
        if s[0] == "mutrefs":
            return ("at", ("cellvec", s[1], s[2]), i)
        if s[0] == "chunks" and i[0] == "int":
            return ("refv", ("slice_of", s[1], ("int", i[1] * s[2]), ("int", (i[1] + 1) * s[2])))
        return self.index_value(s, i)

    def subst(self, t, sub):
        if not sub:
            return t
        memo = {}

        def go(x):
            if not isinstance(x, tuple):
                return x
            r = sub.get(x)
            if r is not None:
                return r
            r = memo.get(id(x))
            if r is not None:
                return r[1]
            if x and x[0] in ("loopout", "some_iter") and len(x) == 3:
                r2 = self.specialise_loop(x, sub)
            elif x and x[0] == "b":
                r2 = ("b", self.bdd_subst(x[1], sub))
            elif x and x[0] == "ite":
                r2 = self.mk_ite(self.bdd_subst(x[1], sub), go(x[2]), go(x[3]))
            else:
                r2 = tuple(go(y) for y in x)
                if r2 == x:
                    r2 = x
                else:
                    r2 = self.resimplify(r2)
            memo[id(x)] = (x, r2)
            return r2
        return go(t)

    def specialise_loop(self, t, sub):
        """`loopout(u, c)` refers to the summary stored for loop u.  When the substitution touches symbols that occur
        in that summary (an enclosing loop's index or element, a `lv` of an enclosing loop) the summary itself has to
        be instantiated: a copy of the loop record under a fresh uid carries the substituted init / step terms."""
        u = t[1]
        info = self.loops.get(u)
        if info is None or not info.step:
            return t
        keys = [k for k in sub if not (isinstance(k, tuple) and len(k) >= 2 and k[0] in ("lv", "elem", "idx", "hasnext") and k[1] == u)]
        if not keys:
            return t
        touched = False
        for c in info.cells:
            for term in (info.init.get(c), info.step.get(c)):
                if term is not None and any(contains_term(term, k) for k in keys):
                    touched = True
                    break
            if touched:
                break
        if not touched and info.src is not None and any(contains_term(info.src, k) for k in keys):
            touched = True
        if not touched:
            return t
        cache = self.__dict__.setdefault("_spec_cache", {})
        ck = (u, tuple(sorted((repr(k), repr(sub[k])) for k in keys)))
        nu = cache.get(ck)
        if nu is None:
            import copy
            nu = next(self.nuid)
            cache[ck] = nu
            ni = copy.copy(info)
            ni.uid = nu
            ren = {}
            for c in info.cells:
                ren[("lv", u, c)] = ("lv", nu, c)
            for j in range(8):
                ren[("elem", u, j)] = ("elem", nu, j)
            ren[("idx", u)] = ("idx", nu)
            ren[("hasnext", u)] = ("hasnext", nu)
            full = dict(ren)
            for k in keys:
                full[k] = sub[k]
            self.loops[nu] = ni         # registered first: nested references resolve against it
            ni.init = {c: self.subst(v, full) for c, v in info.init.items()}
            ni.step = {c: self.subst(v, full) for c, v in info.step.items()}
            ni.src = self.subst(info.src, full) if info.src is not None else None
            ni.early = [(self.bdd_subst(cnd, full), tg) for cnd, tg in getattr(info, "early", [])]
            if u in self.__dict__.get("vmaps", {}):
                self.vmaps[nu] = tuple(self.subst(l, full) for l in self.vmaps[u])
        return (t[0], nu, t[2])

    def resimplify(self, t):
        """Re-apply local simplifications after a substitution exposed structure."""
        k = t[0]
        if k == "field":
            return self.proj_field(t[1], t[2], t[3])
        if k == "vfield":
            return self.proj_field(("down", t[1], t[2]), t[3])
        if k == "at":
            return self.index_value(t[1], t[2])
        if k == "deref":
            if t[1][0] == "refv":
                return t[1][1]
        if k == "discr":
            return self.discr(t[1])
        return t

    def bdd_subst(self, n, sub):
        if n < 2:
            return n
        memo = {}

        def go(m):
            if m < 2:
                return m
            if m in memo:
                return memo[m]
            v, lo, hi = self.bdd.nodes[m]
            atom = self.bdd.atoms[v]
            a2 = self.subst(atom, sub)
            if a2 == atom:
                c = self.bdd.var(atom)
            else:
                c = self.atom_to_bdd(a2)
            r = self.bdd.ite(c, go(hi), go(lo))
            memo[m] = r
            return r
        return go(n)

    def atom_to_bdd(self, a):
        if a[0] == "eq" and a[2][0] == "int":
            return self.eq_int(a[1], a[2][1])
        return self.tobdd(a)

    # ------------------------------------------------------------- store access
    def resolve(self, st, fr, place):
        """Place -> (cell, path) or ('val', value) when the place lives inside an immutable value."""
        l, proj = place
        cell = fr.cells[l]
        path = ()
        cur = None  # value when we left the store
        for e in proj:
            if e[0] == "*":
                v = cur if cur is not None else self.read_loc(st, cell, path)
                if v[0] == "ref":
                    cell, path, cur = v[1], v[2], None
                else:
                    cur = self.deref_value(st, v)
            else:
                if cur is not None:
                    cur = self.proj_elem(st, fr, cur, e)
                else:
                    path = path + (self.norm_elem(st, fr, e),)
        if cur is not None:
            return ("val", cur)
        return (cell, path)

    def norm_elem(self, st, fr, e):
        if e[0] == "sub" and not e[3]:
            return ("srange", e[1], e[2])        # `[head @ .., last]` patterns on arrays: a constant range of the place
        if e[0] == "idx":
            iv = self.read_loc(st, fr.cells[e[1]], ())
            return ("vidx", iv)
        if e[0] == "cidx":
            if e[2]:
                return ("cidx_end", e[1])
            return ("vidx", ("int", e[1]))
        return e

    def deref_value(self, st, v):
        k = v[0]
        if k == "ref":
            return self.read_loc(st, v[1], v[2])
        if k == "refv":
            return v[1]
        if k == "boxp" or k == "box":
            return v[1]
        if k == "ite":
            return self.mk_ite(v[1], self.deref_value(st, v[2]), self.deref_value(st, v[3]))
        if k == "undef":
            return UNDEF
        return ("deref", v)

    def proj_elem(self, st, fr, v, e):
        k = e[0]
        if k == "f":
            return self.proj_field(v, e[1], e[2])
        if k == "down":
            if v[0] == "struct" and v[2] != e[1]:
                return UNDEF
            return ("down", v, e[1])
        if k == "vidx":
            return self.index_value(v, e[1])
        if k == "idx":
            return self.index_value(v, self.read_loc(st, fr.cells[e[1]], ()))
        if k == "cidx":
            if e[2]:
                return ("at_end", v, e[1])
            return self.index_value(v, ("int", e[1]))
        if k == "*":
            return self.deref_value(st, v)
        if k == "unbox":
            return v[1] if v[0] == "box" else v
        if k == "sub":
            return ("subslice", v, e[1], e[2], e[3])
        if k == "srange" and isinstance(e[1], int) and isinstance(e[2], int):
            return ("slice_of", v, ("int", e[1]), ("int", e[2]))
        return ("proj?", v, e)

    def read_loc(self, st, cell, path):
        v = st.store.get(cell, UNDEF)
        for e in path:
            v = self.proj_elem(st, None, v, e)
        return v

    def read_place(self, st, fr, place):
        r = self.resolve(st, fr, place)
        if r[0] == "val":
            return r[1]
        v = self.read_loc(st, r[0], r[1])
        if v[0] == "down":
            return v[1]
        return v

    def update(self, v, path, val):
        if not path:
            return val
        e = path[0]
        rest = path[1:]
        k = e[0]
        if k == "f":
            i = e[1]
            if v[0] in ("struct", "tuple"):
                fs = list(v[-1])
                while len(fs) <= i:
                    fs.append(UNDEF)
                fs[i] = self.update(fs[i], rest, val)
                return v[:-1] + (tuple(fs),)
            if v[0] == "ite":
                return self.mk_ite(v[1], self.update(v[2], path, val), self.update(v[3], path, val))
            if v[0] == "undef" and not rest:
                return ("upd", v, i, val)
            old = self.proj_field(v, i, e[2])
            return ("upd", v, i, self.update(old, rest, val))
        if k == "down":
            return self.update(v, rest, val)
        if k == "unbox":
            if v[0] == "box":
                return ("box", self.update(v[1], rest, val))
            return self.update(v, rest, val)
        if k == "srange":
            lo, hi = e[1], e[2]
            L = self.lens
            n = seq_len(v, L)
            if hi is None and n is not None:
                hi = n
            if rest or not (isinstance(lo, int) and isinstance(hi, int)) or n is None or not (0 <= lo <= hi <= n):
                raise Unsupported("range write %r" % (e,))
            parts = []
            if lo > 0:
                parts += seq_slice(v, 0, lo, L)
            parts.append(val[1] if val[0] == "copied" else val)
            if hi < n:
                parts += seq_slice(v, hi, n, L)
            return seq_concat(parts, L)
        if k == "vidx" and v[0] == "concat" and e[1][0] == "int" and not rest:
            # single element write into a piecewise buffer
            i = e[1][1]
            n = seq_len(v, self.lens)
            if n is not None and 0 <= i < n:
                return seq_concat(seq_slice(v, 0, i, self.lens) + [("array", (val,))] + seq_slice(v, i + 1, n, self.lens), self.lens)
        if k == "vidx" and v[0] == "box":
            return ("box", self.update(v[1], path, val))        # indexing a Box<[T; N]> indexes its array
        if k == "vidx":
            i = e[1]
            if v[0] == "vmap" and i[0] == "int" and len(v) > 4 and isinstance(v[4], int) and 0 <= i[1] < v[4] <= 64:
                # a write at a constant position into an element-wise map of known length: materialise it
                v = ("array", tuple(self.index_value(v, ("int", j)) for j in range(v[4])))
            if v[0] == "repeat" and i[0] == "int" and isinstance(v[2], int) and 0 <= i[1] < v[2] <= 64:
                v = ("array", (v[1],) * v[2])
            if v[0] == "array" and i[0] == "int":
                es = list(v[1])
                es[i[1]] = self.update(es[i[1]], rest, val)
                return ("array", tuple(es))
            old = self.index_value(v, i)
            return ("upd_idx", v, i, self.update(old, rest, val))
        raise Unsupported("update through %r" % (e,))

    def write_place(self, st, fr, place, val):
        l, proj = place
        if proj and proj[-1][0] == "f":
            # `s.f = x` on a symbolic struct value: eta-expand the struct so that field-wise updates and whole-struct
            # replacement ( `*s = S { f: x, g: s.g }` ) build the same term
            try:
                pty = self.local_ty(fr, (l, proj[:-1]))
            except Exception:
                pty = None
            if pty is not None and pty[0] == "adt":
                rec = self.prog.adts.get(pty[1])
                if rec is not None and rec["kind"] == "Struct" and len(rec["variants"]) == 1:
                    flds = rec["variants"][0]["fields"]
                    parent = self.read_place(st, fr, (l, proj[:-1]))
                    if parent is not None and parent[0] not in ("struct", "undef", "ite"):
                        i = proj[-1][1]
                        fields = tuple(val if j == i else self.proj_field(parent, j, flds[j]["n"]) for j in range(len(flds)))
                        return self.write_place(st, fr, (l, proj[:-1]), ("struct", pty[1], 0, fields))
        r = self.resolve(st, fr, place)
        if r[0] == "val":
            self.notes.append("write into immutable value ignored at %s" % fr.body.path)
            return
        cell, path = r
        if not path:
            st.store[cell] = val
        else:
            st.store[cell] = self.update(st.store.get(cell, UNDEF), path, val)

    def write_ref(self, st, ref, val):
        """Write through a reference value."""
        if ref[0] == "ref":
            cell, path = ref[1], ref[2]
            if not path:
                st.store[cell] = val
            else:
                st.store[cell] = self.update(st.store.get(cell, UNDEF), path, val)
        elif ref[0] == "ite":
            # write to both targets conditionally
            for tgt, pol in ((ref[2], True), (ref[3], False)):
                if tgt[0] == "ref":
                    old = self.read_loc(st, tgt[1], tgt[2])
                    c = ref[1] if pol else self.bdd.NOT(ref[1])
                    self.write_ref(st, tgt, self.mk_ite(c, val, old))
        else:
            self.notes.append("write through non-cell reference %r ignored" % (ref[:1],))

    # ------------------------------------------------------------- operands / rvalues
    def const_value(self, fr, c):
        if "fn" in c:
            return ("fnitem", c["fn"], self.subst_gargs(c.get("args", ()), fr.genv))
        if "item" in c:
            if "promoted" in c:
                return self.eval_promoted(fr, c["item"], c["promoted"])
            if "int" in c:
                return ("int", c["int"])
            p = c["item_path"]
            rec = self.prog.consts.get(p)
            if rec is not None and "int" in rec:
                return ("int", rec["int"])
            if rec is not None and "bytes" in rec:
                arr = decode_int_array(rec.get("ty"), rec["bytes"])
                if arr is not None:
                    return arr          # `const XS: [usize; 4] = [0, 2, 3, 4]`: its evaluated contents
            return ("const", p)
        if "int" in c:
            t = c["ty"]
            if t == ("prim", "bool"):
                return ("b", 1 if c["int"] else 0)
            return ("int", c["int"])
        if "str" in c:
            return ("refv", ("str", c["str"]))
        if "zst" in c:
            t = c["ty"]
            if t[0] == "tuple" and not t[1]:
                return UNIT
            if t[0] == "adt":
                return ("struct", t[1], 0, ())
            return ("zst", ty_str(t))
        if "tyconst" in c:
            v = c["tyconst"]
            if isinstance(v, int):
                return ("int", v)
            r = fr.genv.get(v)
            if r is not None and r[0] == "const" and isinstance(r[1], int):
                return ("int", r[1])
            return ("cparam", v)
        if "bytes" in c:
            return ("bytes_const", c["bytes"])
        return ("const?", ty_str(c["ty"]))

    def eval_promoted(self, fr, item, idx):
        """Promoted constants (`&CONST`, `&[None; 5]`, ...) have their own little MIR bodies."""
        owner = self.prog.bodies.get(item)
        if owner is None or idx >= len(owner.promoted):
            return ("promoted", item, idx)
        key = (item, idx, tuple(sorted(fr.genv.items())))
        pm = self.__dict__.setdefault("_promoted_memo", {})
        if key in pm:
            return pm[key]
        pb = owner.promoted[idx]
        st = State({}, 1)
        cells = [next(self.ncell) for _ in pb.locals]
        nf = Frame(pb, cells, fr.genv, fr.callpath, fr.depth + 1)
        v = self.run_body(st, nf)
        if v is not None and v[0] == "ref":
            v = ("refv", self.read_loc(st, v[1], v[2]))
        if v is None:
            v = ("promoted", item, idx)
        pm[key] = v
        return v

    def operand(self, st, fr, o):
        k = o[0]
        if k in ("copy", "move"):
            return self.read_place(st, fr, o[1])
        if k == "const":
            return self.const_value(fr, o[1])
        return ("opaque",)

    def local_ty(self, fr, place):
        """Type of a place (after substituting the frame's generic environment)."""
        l, proj = place
        t = fr.body.locals[l]
        for e in proj:
            if e[0] == "f":
                t = e[3]
            elif e[0] == "*":
                if t[0] in ("ref", "ptr"):
                    t = t[2]
                elif t[0] == "adt" and t[1].endswith("boxed::Box"):
                    t = t[2][0]
                else:
                    return None
            elif e[0] in ("idx", "cidx"):
                if t[0] in ("array", "slice"):
                    t = t[1]
                else:
                    return None
            elif e[0] == "down":
                pass
            else:
                return None
        return self.subst_ty(t, fr.genv)

    def subst_ty(self, t, genv):
        if not genv:
            return t
        k = t[0]
        if k == "param":
            return genv.get(t[1], t)
        if k == "adt":
            return ("adt", t[1], tuple(self.subst_ty(a, genv) for a in t[2]))
        if k in ("ref", "ptr"):
            return (k, t[1], self.subst_ty(t[2], genv))
        if k == "array":
            n = t[2]
            if not isinstance(n, int):
                r = genv.get(n)
                if r is not None and r[0] == "const":
                    n = r[1]
            return ("array", self.subst_ty(t[1], genv), n)
        if k == "slice":
            return ("slice", self.subst_ty(t[1], genv))
        if k == "tuple":
            return ("tuple", tuple(self.subst_ty(a, genv) for a in t[1]))
        if k == "const":
            if not isinstance(t[1], int):
                r = genv.get(t[1])
                if r is not None:
                    return r
            return t
        if k == "fndef":
            return ("fndef", t[1], tuple(self.subst_ty(a, genv) for a in t[2]))
        return t

    def subst_gargs(self, gargs, genv):
        return tuple(self.subst_ty(a, genv) for a in gargs)

    def rvalue(self, st, fr, rv, dest):
        k = rv[0]
        if k == "use":
            return self.operand(st, fr, rv[1])
        if k == "ref" or k == "rawptr":
            r = self.resolve(st, fr, rv[2])
            if r[0] == "val":
                return ("refv", r[1])
            return ("ref", r[0], r[1])
        if k == "agg":
            ak = rv[1]
            if ak == "adt":
                xs = tuple(self.operand(st, fr, x) for x in rv[6])
                return ("struct", rv[2], rv[3], xs)
            if ak == "closure":
                xs = tuple(self.operand(st, fr, x) for x in rv[3])
                return ("closure", rv[2], xs, tuple(sorted(fr.genv.items())))
            if ak == "array":
                xs = tuple(self.operand(st, fr, x) for x in rv[3])
                return ("array", xs)
            xs = tuple(self.operand(st, fr, x) for x in rv[2])
            if ak == "tuple":
                if not xs:
                    return UNIT
                return ("tuple", xs)
            return ("agg?", ak, xs)
        if k == "cast":
            return self.cast(st, fr, rv)
        if k == "binop":
            return self.binop(st, fr, rv)
        if k == "unop":
            a = self.operand(st, fr, rv[2])
            op = rv[1]
            if op == "Not":
                if rv[3] == ("prim", "bool"):
                    return ("b", self.bdd.NOT(self.tobdd(a)))
                return ("inot", a, ty_str(rv[3]))
            if op == "Neg":
                if a[0] == "int":
                    return ("int", -a[1])
                return ("ineg", a, ty_str(rv[3]))
            if op == "PtrMetadata":
                tgt = self.strip_ref_value(st, a)
                n = self.lens.get(tgt)
                if n is None:
                    n = seq_len(tgt, self.lens)
                if n is None and tgt[0] == "vmap" and len(tgt) > 4:
                    n = tgt[4]
                if isinstance(n, int):
                    return ("int", n)
                if isinstance(n, str):
                    return ("cparam", n)
                if isinstance(n, tuple) and n and n[0] in ("cparam", "const"):
                    return ("cparam", n[1])
                return ("len", tgt)
            return ("unop", op, a)
        if k == "discr":
            v = self.read_place(st, fr, rv[1])
            return self.discr(v)
        if k == "repeat":
            x = self.operand(st, fr, rv[1])
            n = rv[2]
            if not isinstance(n, int):
                r = fr.genv.get(n)
                if r is not None and r[0] == "const":
                    n = r[1]
            if isinstance(n, int) and n <= 16:
                return ("array", tuple(x for _ in range(n)))
            return ("repeat", x, n)
        return ("rvalue?", rv[1] if len(rv) > 1 else "")

    def strip_ref_value(self, st, v):
        while is_ref(v):
            v = self.deref_value(st, v)
        return v

    def cast(self, st, fr, rv):
        _, ck, op, fromt, tot = rv
        v = self.operand(st, fr, op)
        fromt = self.subst_ty(fromt, fr.genv)
        tot = self.subst_ty(tot, fr.genv)
        if ck.startswith("PointerCoercion(Unsize"):
            # &[T; N] -> &[T]: remember the length of the pointee
            inner = strip_refs(fromt) if fromt[0] == "ref" else fromt
            if inner[0] == "array":
                tgt = self.strip_ref_value(st, v)
                self.lens[tgt] = inner[2]
            return v
        if ck == "IntToInt":
            ft, tt = ty_str(fromt), ty_str(tot)
            if v[0] == "int":
                return ("int", wrap_int(v[1], tt))
            if v[0] == "b":
                return v
            return ("icast", v, ft, tt)
        if ck in ("Transmute", "PtrToPtr"):
            if fromt[0] == "adt" and fromt[1].endswith("NonNull") and op[0] in ("copy", "move") and len(op[1][1]) >= 2 \
                    and op[1][1][-1][0] == "f" and op[1][1][-2][0] == "f":
                # `(*b)[i] = x` on a local Box<T>: MIR takes `b.0.pointer as *mut T`; keep it a reference into the
                # box's own cell so that writes through it land in the box
                r = self.resolve(st, fr, (op[1][0], op[1][1][:-2]))
                if r[0] != "val":
                    cellv = self.read_loc(st, r[0], r[1])
                    if cellv is not None and cellv[0] not in ("undef",):
                        return ("ref", r[0], r[1] + (("unbox",),))
            if v[0] == "boxp":
                return ("refv", v[1])
            if (fromt[0] == "adt" and fromt[1].endswith("NonNull") and v[0] == "field"
                    and v[1][0] == "field"):
                # symbolic Box<T>: `b.0.pointer as *const T` -- a box is identified with its content
                return ("refv", v[1][1])
            return v
        if ck.startswith("PointerCoercion"):
            return v
        return ("cast?", ck, v)

    def binop(self, st, fr, rv):
        _, op, ao, bo, t = rv
        a = self.operand(st, fr, ao)
        b = self.operand(st, fr, bo)
        ts = ty_str(t)
        isbool = t == ("prim", "bool")
        if op in ("Eq", "Ne", "Lt", "Le", "Gt", "Ge"):
            if a[0] == "int" and b[0] == "int":
                r = {"Eq": a[1] == b[1], "Ne": a[1] != b[1], "Lt": a[1] < b[1], "Le": a[1] <= b[1],
                     "Gt": a[1] > b[1], "Ge": a[1] >= b[1]}[op]
                return ("b", 1 if r else 0)
            if isbool and op in ("Eq", "Ne"):
                x, y = self.tobdd(a), self.tobdd(b)
                e = self.bdd.ite(x, y, self.bdd.NOT(y))
                return ("b", e if op == "Eq" else self.bdd.NOT(e))
            if op in ("Eq", "Ne") and a[0] == "int" and b[0] == "len":
                a, b = b, a
            if op in ("Eq", "Ne") and a[0] == "len" and b[0] == "int":
                # `v.len() == n`: the same atom a fallible `<[T; n]>::try_from(v)` tests
                e = self.bdd.var(("len_is", a[1], b[1]))
                return ("b", e if op == "Eq" else self.bdd.NOT(e))
            if op in ("Eq", "Ne") and b[0] == "int" and a[0] in ("ite", "b"):
                e = self.eq_int(a, b[1])
                return ("b", e if op == "Eq" else self.bdd.NOT(e))
            # canonical orientation: Gt/Ge -> Lt/Le swapped
            if op == "Gt":
                op, a, b = "Lt", b, a
            elif op == "Ge":
                op, a, b = "Le", b, a
            if op == "Ne":
                return ("b", self.bdd.NOT(self.bdd.var(("icmp", "Eq", a, b, ts))))
            if op == "Le":
                # one canonical order atom: a <= b  ==  !(b < a)   (so `MAX >= v` and `!(v > MAX)` are the same node)
                return ("b", self.bdd.NOT(self.bdd.var(("icmp", "Lt", b, a, ts))))
            return ("b", self.bdd.var(("icmp", op, a, b, ts)))
        if isbool and op in ("BitAnd", "BitOr", "BitXor"):
            x, y = self.tobdd(a), self.tobdd(b)
            if op == "BitAnd":
                return ("b", self.bdd.AND(x, y))
            if op == "BitOr":
                return ("b", self.bdd.OR(x, y))
            return ("b", self.bdd.ite(x, self.bdd.NOT(y), y))
        base = op.replace("WithOverflow", "")
        val = None
        if a[0] == "int" and b[0] == "int":
            try:
                val = {"Add": a[1] + b[1], "Sub": a[1] - b[1], "Mul": a[1] * b[1],
                       "Div": (abs(a[1]) // abs(b[1]) * (1 if (a[1] >= 0) == (b[1] >= 0) else -1)) if b[1] else None,
                       "Rem": (abs(a[1]) % abs(b[1]) * (1 if a[1] >= 0 else -1)) if b[1] else None,
                       "BitAnd": a[1] & b[1], "BitOr": a[1] | b[1], "BitXor": a[1] ^ b[1],
                       "Shl": a[1] << b[1] if 0 <= b[1] < 256 else None,
                       "Shr": a[1] >> b[1] if 0 <= b[1] < 256 else None}.get(base)
            except Exception:
                val = None
        if val is not None and fits(val, ts):
            res = ("int", val)
            ovf = ("b", 0)
        else:
            res = ("i" + base.lower(), a, b, ts)
            ovf = ("b", self.bdd.var(("overflow", base, a, b, ts)))
        if op.endswith("WithOverflow"):
            return ("tuple", (res, ovf))
        return res

    # ------------------------------------------------------------- calls
    def resolve_callee(self, fr, term):
        """Return (def_id, generic args (substituted), resolved?) for a call terminator."""
        cal = term.get("callee")
        if cal is None:
            return None, (), False
        gargs = self.subst_gargs(term.get("gargs", ()), fr.genv)
        if "resolved" in term:
            return term["resolved"], self.subst_gargs(term.get("rargs", ()), fr.genv), True
        d = self.prog.defs[cal]
        if d.get("container") == "trait":
            # trait method: resolve through the impl table with the substituted Self type
            r = self.select_impl(d["trait"].split("::<")[0], d["name"], gargs)
            if r is not None:
                return r[0], r[1], True
            return cal, gargs, False
        return cal, gargs, True

    def select_impl(self, trait_path, name, gargs):
        from .facts import strip_generics
        trait_path = strip_generics(trait_path)
        if not gargs:
            return None
        self_ty = gargs[0]
        if strip_refs(self_ty)[0] in ("param", "alias", "other"):
            return None
        best = None
        for im in self.prog.impls:
            if im.get("trait") != trait_path:
                continue
            env = {}
            if not unify(im["self_ty"], self_ty, env):
                continue
            ta = im.get("trait_args", ())
            # trait_args[0] is Self; the rest are the trait's own parameters
            ok = True
            for x, y in zip(ta[1:], gargs[1:]):
                if has_param(y):
                    continue
                if not unify(x, y, env):
                    ok = False
                    break
            if not ok:
                continue
            for it in im["items"]:
                if it["name"] == name and it["def"] in self.prog.bodies:
                    best = (it["def"], env)
        if best is None:
            return None
        did, env = best
        b = self.prog.bodies[did]
        # generic args of the impl method in declaration order
        ga = tuple(env.get(g["n"], ("param", g["n"]) if g["k"] == "type" else ("const", g["n"])) for g in b.generics)
        return did, ga

    def genv_for(self, body, gargs):
        env = {}
        gens = [g for g in body.generics if not g["n"].startswith("<")]
        for g, a in zip(gens, gargs):
            env[g["n"]] = a
        return env

    def call(self, st, fr, bi, term):
        """Evaluate a call terminator; returns the value (or None when the call diverges)."""
        did, gargs, ok = self.resolve_callee(fr, term)
        args = [self.operand(st, fr, a) for a in term["args"]]
        site = (fr.body.id, bi)
        if did is None:
            # indirect call through a function value
            f = self.operand(st, fr, term["indirect"]) if "indirect" in term else None
            return ("call_indirect", f, tuple(args))
        d = self.prog.defs.get(did, {})
        q = d.get("qpath", did)
        orig = self.prog.defs.get(term.get("callee"), {})
        oq = orig.get("qpath", q)
        ctx = CallCtx(self, st, fr, term, site, did, gargs, d, oq)
        # 1. explicit models win (foreign functions, and a few local helpers with vector semantics)
        m = self.models.get(oq) or self.models.get(q)
        if m is None and d.get("name"):
            m = self.models.get("*::" + orig.get("name", d.get("name"))) if not d.get("local") else None
        if m is not None:
            r = m(ctx, args)
            if r is not NotImplemented:
                return r
        # 2. crate-local bodies are inlined
        body = self.prog.bodies.get(did)
        if body is not None and did not in self.no_inline and fr.depth < MAX_DEPTH:
            return self.inline(st, fr, site, body, gargs, args)
        # 3. opaque
        return self.opaque_call(ctx, args)

    def opaque_call(self, ctx, args):
        q = ctx.oq
        self.unknown_calls[q] = self.unknown_calls.get(q, 0) + 1
        res = ("call", q, tuple(self.arg_repr(ctx.st, a) for a in args))
        for i, a in enumerate(args):
            if a[0] == "ref" and self.arg_is_mut(ctx, i):
                old = self.read_loc(ctx.st, a[1], a[2])
                self.write_ref(ctx.st, a, ("mutated", q, i, old, res))
        return res

    def arg_is_mut(self, ctx, i):
        o = ctx.term["args"][i]
        if o[0] in ("copy", "move"):
            t = self.local_ty(ctx.fr, o[1])
            return t is not None and t[0] == "ref" and t[1]
        return False

    def arg_repr(self, st, a):
        """By-value view of an argument for opaque call terms (references are looked through)."""
        n = 0
        while is_ref(a) and n < 4:
            a = self.deref_value(st, a)
            n += 1
        return a

    def inline(self, st, fr, site, body, gargs, args, closure_self=None):
        genv = self.genv_for(body, gargs)
        cells = [next(self.ncell) for _ in body.locals]
        nf = Frame(body, cells, genv, fr.callpath + (site,) if fr is not None else (), (fr.depth + 1) if fr is not None else 0)
        for i, a in enumerate(args):
            if i + 1 < len(cells):
                st.store[cells[i + 1]] = a
        self.inlined.add(body.id)
        self.trace_calls.append((nf.callpath, body.id))
        return self.run_body(st, nf)

    # ------------------------------------------------------------- CFG evaluation
    def succs(self, body, bi):
        t = body.blocks[bi]["term"]
        k = t["k"]
        if k == "goto" or k == "drop":
            return [t["target"]]
        if k == "switch":
            return [b for _, b in t["arms"]] + [t["otherwise"]]
        if k in ("call", "assert"):
            return [t["target"]] if t.get("target") is not None else []
        return []

    def loops_of(self, body):
        """Natural loops: header -> set(blocks)."""
        cache = getattr(body, "_loops", None) if hasattr(body, "_loops") else None
        key = "_loops_cache"
        lc = self.__dict__.setdefault(key, {})
        if id(body) in lc:
            return lc[id(body)]
        n = len(body.blocks)
        color = [0] * n
        back = []
        stack = [(0, iter(self.succs(body, 0)))]
        color[0] = 1
        while stack:
            b, it = stack[-1]
            adv = False
            for s in it:
                if color[s] == 0:
                    color[s] = 1
                    stack.append((s, iter(self.succs(body, s))))
                    adv = True
                    break
                elif color[s] == 1:
                    back.append((b, s))
            if not adv:
                color[b] = 2
                stack.pop()
        preds = {}
        for b in range(n):
            if body.blocks[b]["cleanup"]:
                continue
            for s in self.succs(body, b):
                preds.setdefault(s, []).append(b)
        loops = {}
        for src, h in back:
            S = loops.setdefault(h, {h})
            work = [src]
            while work:
                x = work.pop()
                if x in S:
                    continue
                S.add(x)
                work.extend(preds.get(x, []))
        lc[id(body)] = loops
        return loops

    def run_body(self, st, fr):
        body = fr.body
        region = set(i for i, bb in enumerate(body.blocks) if not bb["cleanup"])
        exits, backs = self.eval_region(st, fr, region, 0, None)
        rets = fr.returns
        if not rets:
            return None
        merged = self.merge([s for s in rets])
        st.store = merged.store
        st.pc = merged.pc
        return self.read_loc(st, fr.cells[0], ())

    def eval_region(self, st0, fr, region, entry, own_header):
        """Evaluate the blocks of `region` starting at `entry`.  Returns (exits, backs):
        exits: {outside target -> [State]}, backs: [State] reaching `own_header` again."""
        body = fr.body
        loops = self.loops_of(body)
        inner = {}
        for h, S in loops.items():
            if h in region and h != own_header and S <= region:
                inner[h] = S
        # keep only outermost inner loops
        top = {}
        for h, S in inner.items():
            if not any(h2 != h and h in S2 for h2, S2 in inner.items()):
                top[h] = S
        owner = {}
        for h, S in top.items():
            for b in S:
                owner[b] = h

        def node_succs(b):
            if b in top:
                out = set()
                for x in top[b]:
                    for s in self.succs(body, x):
                        if s not in top[b]:
                            out.add(s)
                return sorted(out)
            return self.succs(body, b)
        # reverse post-order over collapsed nodes
        order = []
        seen = set()

        def dfs(b):
            stack = [(b, iter(node_succs(b)))]
            seen.add(b)
            while stack:
                x, it = stack[-1]
                adv = False
                for s in it:
                    s = owner.get(s, s)
                    if s == own_header or s not in region or s in seen:
                        continue
                    if s == entry:
                        continue
                    seen.add(s)
                    stack.append((s, iter(node_succs(s))))
                    adv = True
                    break
                if not adv:
                    order.append(x)
                    stack.pop()
        dfs(entry)
        order.reverse()
        pending = {entry: [st0]}
        exits = {}
        backs = []

        def deliver(tgt, s):
            if own_header is not None and tgt == own_header:
                backs.append(s)
            elif tgt not in region:
                exits.setdefault(tgt, []).append(s)
            else:
                pending.setdefault(owner.get(tgt, tgt), []).append(s)
        for b in order:
            ins = pending.pop(b, None)
            if not ins:
                continue
            st = self.merge(ins)
            if b in top:
                res = self.eval_loop(st, fr, b, top[b])
                for tgt, s in res:
                    deliver(tgt, s)
                continue
            for tgt, s in self.exec_block(st, fr, b):
                deliver(tgt, s)
        return exits, backs

    def merge(self, states):
        if len(states) == 1:
            return states[0]
        bdd = self.bdd
        acc = states[-1]
        store = dict(acc.store)
        pc = acc.pc
        for s in reversed(states[:-1]):
            keys = set(store) | set(s.store)
            ns = {}
            for k in keys:
                a = s.store.get(k, UNDEF)
                b = store.get(k, UNDEF)
                if a is b or a == b:
                    ns[k] = a
                elif a == UNDEF:
                    ns[k] = b
                elif b == UNDEF:
                    ns[k] = a
                else:
                    ns[k] = self.mk_ite(self.gate(s.pc, pc), a, b)
            store = ns
            pc = bdd.OR(s.pc, pc)
        return State(store, pc)

    def gate(self, p, q):
        """A condition c with (p -> c) and (q -> !c), as small as we can cheaply make it."""
        bdd = self.bdd
        # try single literals that separate p from q
        for a, pol in bdd.necessary_literals(p):
            lit = bdd.var(a) if pol else bdd.NOT(bdd.var(a))
            if bdd.AND(q, lit) == 0:
                return lit
        cq = bdd.necessary_literals(q)
        for a, pol in cq:
            lit = bdd.var(a) if pol else bdd.NOT(bdd.var(a))
            if bdd.AND(p, lit) == 0:
                return bdd.NOT(lit)
        return p

    def exec_block(self, st, fr, bi):
        """Execute one basic block; yields (target, State) for every feasible successor."""
        body = fr.body
        bb = body.blocks[bi]
        for s in bb["stmts"]:
            if s[0] == "assign":
                v = self.rvalue(st, fr, s[2], s[1])
                # Boolean-typed destinations hold BDD values
                self.write_place(st, fr, s[1], v)
            elif s[0] == "setdiscr":
                pass
        t = bb["term"]
        k = t["k"]
        out = []
        if k == "goto":
            out.append((t["target"], st))
        elif k == "drop":
            out.append((t["target"], st))
        elif k == "return":
            fr.returns.append(st)
        elif k == "unreachable":
            pass
        elif k == "switch":
            x = self.operand(st, fr, t["x"])
            rest = 1
            bdd = self.bdd
            for val, tgt in t["arms"]:
                c = self.eq_int(x, val)
                pc = bdd.AND(st.pc, bdd.AND(rest, c))
                rest = bdd.AND(rest, bdd.NOT(c))
                if pc != 0:
                    out.append((tgt, st.fork(pc)))
            pc = bdd.AND(st.pc, rest)
            if pc != 0:
                # `otherwise -> unreachable` edges carry no state
                ob = body.blocks[t["otherwise"]]
                if not (ob["term"]["k"] == "unreachable" and not ob["stmts"]):
                    out.append((t["otherwise"], st.fork(pc)))
        elif k == "assert":
            c = self.operand(st, fr, t["cond"])
            self.obligations.append({
                "kind": t["msg"], "op": t.get("op"), "pc": st.pc, "cond": c, "expected": t["expected"],
                "ops": [self.operand(st, fr, o) for o in t["ops"]],
                "site": (body.id, bi), "ln": t["ln"], "callpath": fr.callpath, "exp": t["exp"]})
            out.append((t["target"], st))
        elif k == "call":
            v = self.call(st, fr, bi, t)
            if t.get("target") is None or v is None:
                d = self.prog.defs.get(t.get("resolved") or t.get("callee"), {})
                self.panics.append({"pc": st.pc, "site": (body.id, bi), "callee": d.get("qpath"),
                                    "ln": t["ln"], "callpath": fr.callpath, "exp": t["exp"],
                                    "diverges_in_callee": t.get("target") is not None})
            else:
                dt = self.local_ty(fr, t["dest"])
                if dt == ("prim", "bool") and v[0] not in ("b",):
                    v = ("b", self.tobdd(v))
                self.write_place(st, fr, t["dest"], v)
                out.append((t["target"], st))
        else:
            self.notes.append("terminator %s in %s" % (k, body.path))
        return out

    # ------------------------------------------------------------- loops
    def eval_loop(self, st0, fr, header, blocks):
        uid = next(self.nuid)
        bdd = self.bdd
        info = LoopInfo()
        info.uid = uid
        info.body = fr.body.id
        info.header = header
        info.site = (fr.body.id, header, fr.callpath)
        info.init_store = st0.store
        info.iter_cell = None
        self.loops[uid] = info
        pre = set(st0.store.keys())
        nob, npan, nloops = len(self.obligations), len(self.panics), set(self.loops)
        saved_rets = list(fr.returns)
        M = set()
        for _round in range(8):
            s = st0.fork()
            for c in M:
                s.store[c] = ("lv", uid, c)
            self.binders.append(uid)
            info.kind = None
            info.src = None
            try:
                exits, backs = self.eval_region(s, fr, blocks, header, header)
            finally:
                self.binders.pop()
            newM = set(M)
            for b in backs:
                for c in pre:
                    if b.store.get(c, UNDEF) != s.store.get(c, UNDEF):
                        newM.add(c)
            if newM == M:
                break
            M = newM
            # discard side results of the discovery pass
            del self.obligations[nob:]
            del self.panics[npan:]
            for u in set(self.loops) - nloops - {uid}:
                del self.loops[u]
            fr.returns[:] = saved_rets
        # ---- small iterator loops with a statically known trip count are executed iteration by iteration
        n_trip = None
        if info.kind == "iter" and info.src is not None:
            from .models import shape_len, unrollable
            n_trip = shape_len(self, info.src)
            from .models import unroll_limit
            if not (isinstance(n_trip, int) and 0 <= n_trip <= unroll_limit(info.src) and unrollable(info.src)):
                n_trip = None
        if n_trip is not None:
            del self.obligations[nob:]
            del self.panics[npan:]
            for u in set(self.loops) - nloops - {uid}:
                del self.loops[u]
            fr.returns[:] = saved_rets
            info.kind = "unrolled"
            info.cells, info.init, info.step, info.early, info.normal = [], {}, {}, [], []
            res = []
            cur = st0.fork()
            shape = info.src
            for kk in range(n_trip + 1):
                self.unroll[uid] = (kk, n_trip, shape)
                self.binders.append(uid)
                try:
                    exits, backs = self.eval_region(cur, fr, blocks, header, header)
                finally:
                    self.binders.pop()
                for tgt, sts in exits.items():
                    for s_ in sts:
                        res.append((tgt, s_))
                if not backs:
                    break
                cur = self.merge(backs) if len(backs) > 1 else backs[0]
            self.unroll.pop(uid, None)
            # one state per target
            by_t = {}
            for tgt, s_ in res:
                by_t.setdefault(tgt, []).append(s_)
            return [(tgt, self.merge(sts) if len(sts) > 1 else sts[0]) for tgt, sts in by_t.items()]
        info.cells = sorted(M)
        info.init = {c: st0.store.get(c, UNDEF) for c in M}
        if backs:
            mb = self.merge(backs)
            info.step = {c: mb.store.get(c, UNDEF) for c in M}
            info.back_pc = self.relativize(mb.pc, st0.pc)
        else:
            info.step = {}
            info.back_pc = 0
        if info.kind is None:
            info.kind = "generic"
        hn = ("hasnext", uid)
        # classify the ways out of the loop
        outs = []   # (kind, rel_cond, target or 'return', state, return index)
        # one way out per target block: `a || b` short-circuits into edges that reach the same block
        # through empty forwarding blocks
        grouped = {}
        for tgt, sts in exits.items():
            t2 = tgt
            hops = 0
            while hops < 8:
                bb2 = fr.body.blocks[t2]
                if not bb2["stmts"] and bb2["term"]["k"] == "goto" and bb2["term"]["target"] not in blocks:
                    t2 = bb2["term"]["target"]
                    hops += 1
                else:
                    break
            grouped.setdefault(t2, []).extend(sts)
        for tgt, sts in grouped.items():
            s2 = self.merge(sts) if len(sts) > 1 else sts[0]
            outs.append([tgt, s2, None])
        for i in range(len(saved_rets), len(fr.returns)):
            outs.append(["return", fr.returns[i], i])
        early = []
        normal = []
        for o in outs:
            rel = self.relativize(o[1].pc, st0.pc)
            if info.kind == "iter" and bdd.restrict(rel, hn, True) == 0:
                normal.append(o)
                o.append(None)
            else:
                if info.kind == "iter":
                    rel = bdd.restrict(rel, hn, True)
                o.append(rel)
                early.append(o)
        conv = None
        if info.kind == "generic" and len(early) == 1 and not normal:
            conv = self.counting_loop(uid, info, M, early[0][3])
        if conv is not None:
            # `let mut i = a; while i < B { body(i); i += 1 }`  ==  `for i in a..B { body(i) }`
            ci, lo, hi, sub_i = conv
            info.kind = "iter"
            info.src = ("range", lo, hi)
            info.counter = ci
            info.step = {c: self.subst(v, sub_i) for c, v in info.step.items()}
            info.back_pc = self.bdd_subst(info.back_pc, sub_i) if isinstance(info.back_pc, int) else info.back_pc
            o = early[0]
            early, normal = [], [o]
            o[3] = None
            o[1] = State({c: (self.subst(v, sub_i) if contains_uid(v, uid) else v) for c, v in o[1].store.items()}, o[1].pc)
        info.early = [(o[3], o[0]) for o in early]
        info.normal = [o[0] for o in normal]
        atoms = []
        # `let mut g = draw(); while bad(g) { g = draw(); }`: the value that leaves the loop is one of the draws (the
        # first or a later one); it is represented by the loop's own draw, like in `loop { let g = draw(); if ok(g) .. }`
        redraw = {}
        if info.kind == "generic" and len(early) == 1 and not normal:
            for c in M:
                i0, s0 = info.init.get(c), info.step.get(c)
                if i0 is not None and s0 is not None and i0[0] == "rand" and s0[0] == "rand" and i0[1] == s0[1] \
                        and not any(contains_term(s0, ("lv", uid, c2)) for c2 in M):
                    redraw[("lv", uid, c)] = s0
        for k, o in enumerate(early):
            if info.kind == "iter":
                atoms.append(bdd.var(("anyiter", uid, ("b", o[3]))))
            elif len(early) == 1:
                atoms.append(1)
                # sole way out of a `loop {}`: its guard holds for the values that leave the loop
                self.assumed.append(self.bdd_subst(o[3], {("lv", uid, c): redraw.get(("lv", uid, c), ("some_iter", uid, c)) for c in M}))
            else:
                atoms.append(bdd.var(("exit", uid, k)))
        res = []
        sub_out = {("lv", uid, c): ("loopout", uid, c) for c in M}
        sub_some = {("lv", uid, c): redraw.get(("lv", uid, c), ("some_iter", uid, c)) for c in M}
        if info.kind == "iter" and not early and info.src is not None:
            # push loops: a vector that starts empty and receives exactly one element per iteration is the
            # element-wise map of the iterated collection (`for .. { v.push(f(..)) }` == `.map(f).collect()`)
            from .models import shape_len, leaves_of
            n_it, lvs_it = shape_len(self, info.src), tuple(leaves_of(info.src))
            for c in M:
                closed = self.closed_push_loop(uid, c, info, M, n_it, lvs_it)
                if closed is None:
                    closed = self.closed_sum_loop(uid, c, info, M, n_it, lvs_it)
                if closed is None:
                    closed = self.closed_fill_loop(uid, c, info, M, n_it, lvs_it)
                if closed is None and getattr(info, "counter", None) == c:
                    closed = info.src[2]        # the counter leaves the loop at the bound
                if closed is not None:
                    sub_out[("lv", uid, c)] = closed
        for o in normal:
            pc = st0.pc
            for a in atoms:
                pc = bdd.AND(pc, bdd.NOT(a))
            ns = {c: (self.subst(v, sub_out) if contains_uid(v, uid) else v) for c, v in o[1].store.items()}
            if info.iter_cell is not None and info.iter_cell in ns:
                ns[info.iter_cell] = ("iter_done", info.src)
            self._emit(res, fr, o, State(ns, pc))
        for k, o in enumerate(early):
            pc = bdd.AND(st0.pc, atoms[k])
            for a in atoms[:k]:
                if a != 1:
                    pc = bdd.AND(pc, bdd.NOT(a))
            ns = {c: (self.subst(v, sub_some) if contains_uid(v, uid) else v) for c, v in o[1].store.items()}
            self._emit(res, fr, o, State(ns, pc))
        return res

    def closed_push_loop(self, uid, c, info, M, n, leaves):
        init, step = info.init.get(c), info.step.get(c)
        if init is None or step is None:
            return None
        if info.src is not None and info.src[0] == "revall":
            return None         # built back to front: not the element-wise map in source order
        wrap = None
        base = init
        if base[0] == "arrayvec":
            wrap = ("arrayvec", base[2] if len(base) > 2 else None)
            base = base[1]
        empty = base in (("array", ()), ("vec", ()))
        if not empty:
            return None
        if step[0] != "pushed" or step[1] != ("lv", uid, c):
            return None
        e = step[2]
        for c2 in M:
            if contains_term(e, ("lv", uid, c2)):
                return None
        self.__dict__.setdefault("vmaps", {})[uid] = leaves
        vm = ("vmap", uid, e, leaves, n)
        if wrap is not None:
            return ("arrayvec", vm, wrap[1])
        return ("collected", vm, "Vec")

    def counting_loop(self, uid, info, M, exit_cond):
        """Recognise `while i < B { ...; i += 1 }`: sole exit under !(i < B) (or i == B), counter init a, step i + 1,
        bound loop-invariant.  Returns (counter cell, lo, hi, substitution of the counter by the iteration index)."""
        bdd = self.bdd
        lits = bdd.as_conjunction(exit_cond)
        if not lits or len(lits) != 1:
            return None
        atom, pol = lits[0]
        if atom[0] != "icmp":
            return None
        if atom[1] == "Lt" and not pol:
            cnt, bound = atom[2], atom[3]
        elif atom[1] == "Eq" and pol:
            cnt, bound = atom[2], atom[3]
            if bound[0] == "lv":
                cnt, bound = bound, cnt
        else:
            return None
        if cnt[0] != "lv" or cnt[1] != uid or cnt[2] not in M or contains_uid(bound, uid):
            return None
        ci = cnt[2]
        init, step = info.init.get(ci), info.step.get(ci)
        if init is None or step is None or init[0] != "int":
            return None
        one = ("int", 1)
        if not (step[0] == "iadd" and ((step[1] == cnt and step[2] == one) or (step[2] == cnt and step[1] == one))):
            return None
        if atom[1] == "Eq" and not (bound[0] == "int" and bound[1] >= init[1]) and bound[0] != "cparam":
            return None
        idx = ("idx", uid)
        val = idx if init[1] == 0 else ("iadd", init, idx, step[3] if len(step) > 3 else "usize")
        return ci, init, bound, {cnt: val}

    def closed_fill_loop(self, uid, c, info, M, n, leaves):
        """`for i in 0..N { a[i] = f(i) }` over an array of length N: every slot is written exactly once, so the
        result is the element-wise map of the index range (the initial contents are irrelevant)."""
        init, step = info.init.get(c), info.step.get(c)
        if init is None or step is None or info.src is None:
            return None
        if info.src[0] == "revall":
            return None
        if info.src[0] == "range" and info.src[1] != ("int", 0):
            return None
        wrap = False
        base = init
        if base[0] == "box":
            base, wrap = base[1], True
        st = step
        if st[0] == "box":
            st = st[1]
        lv = ("lv", uid, c)
        if st[0] != "upd_idx" or st[1] not in (lv, ("box", lv)) and not (st[1][0] == "box" and st[1][1] == lv):
            return None
        if st[2] != ("idx", uid):
            return None
        e = st[3]
        # in-place update `a[i] = f(a[i], ..)`: slot i is written once, so the `a[i]` it reads is the initial one
        own_old = self.index_value(base, ("idx", uid))
        e = self.subst(e, {("at", lv, ("idx", uid)): own_old, ("at", ("box", lv), ("idx", uid)): own_old})
        for c2 in M:
            if contains_term(e, ("lv", uid, c2)):
                return None
        from .models import vec_len
        n0 = vec_len(self, base)

        def nm(x):
            return x[1] if isinstance(x, tuple) and x and x[0] in ("cparam", "const") else x
        if n is None or n0 is None or nm(n0) != nm(n):
            return None
        self.__dict__.setdefault("vmaps", {})[uid] = leaves
        vm = ("vmap", uid, e, leaves, n)
        return ("box", vm) if wrap else vm

    def closed_sum_loop(self, uid, c, info, M, n, leaves):
        """acc' = acc + g(elem) with g free of loop-carried cells  ==>  acc0 + sum(map(g))  (the same term
        `iter().map(g).sum()` produces)."""
        init, step = info.init.get(c), info.step.get(c)
        if init is None or step is None or step[0] != "add" or len(step) != 3:
            return None
        lv = ("lv", uid, c)
        if step[1] == lv:
            g = step[2]
        elif step[2] == lv:
            g = step[1]
        else:
            return None
        for c2 in M:
            if contains_term(g, ("lv", uid, c2)):
                return None
        self.__dict__.setdefault("vmaps", {})[uid] = leaves
        total = ("vsum", ("vmap", uid, g, leaves, n))
        if init in (("gzero",), ("zero",), ("int", 0)):
            return total
        return ("add", init, total)

    def _emit(self, res, fr, o, state):
        if o[0] == "return":
            fr.returns[o[2]] = state
        else:
            res.append((o[0], state))

    def relativize(self, pc, pc0):
        r = pc
        for a, pol in self.bdd.necessary_literals(pc0):
            r = self.bdd.restrict(r, a, pol)
        return r

    # ------------------------------------------------------------- entry point
    def eval_fn(self, body, args=None, gargs=None, genv=None):
        """Evaluate `body` on symbolic arguments.  Returns (ret, state, frame)."""
        st = State({}, 1)
        cells = [next(self.ncell) for _ in body.locals]
        if genv is None:
            genv = {}
            if gargs is not None:
                genv = self.genv_for(body, gargs)
        fr = Frame(body, cells, genv, (), 0)
        self.arg_cells = {}
        for i in range(1, body.argc + 1):
            t = self.subst_ty(body.locals[i], genv)
            if args is not None and i - 1 < len(args) and args[i - 1] is not None:
                st.store[cells[i]] = args[i - 1]
                continue
            v = self.symbolic_arg(st, ("arg", i), t)
            st.store[cells[i]] = v
        self.inlined.add(body.id)
        ret = self.run_body(st, fr)
        return ret, st, fr

    def symbolic_arg(self, st, sym, t):
        if t[0] == "ref":
            c = next(self.ncell)
            inner = self.symbolic_arg(st, sym, t[2])
            st.store[c] = inner
            self.arg_cells[sym] = c
            return ("ref", c, ())
        if t == ("prim", "bool"):
            return ("b", self.bdd.var(sym))
        if t[0] == "array":
            self.lens[sym] = t[2]
        return sym


class CallCtx:
    __slots__ = ("eng", "st", "fr", "term", "site", "did", "gargs", "desc", "oq")

    def __init__(self, eng, st, fr, term, site, did, gargs, desc, oq):
        self.eng = eng
        self.st = st
        self.fr = fr
        self.term = term
        self.site = site
        self.did = did
        self.gargs = gargs
        self.desc = desc
        self.oq = oq

    def fresh_ctx(self):
        # the identity of a fresh draw: call path + the iteration it happens in (symbolic index of every enclosing
        # summarised loop, concrete iteration number of every enclosing unrolled loop)
        un = self.eng.unroll
        return (self.fr.callpath + (self.site,), tuple(("int", un[u][0]) if u in un else ("idx", u) for u in self.eng.binders))

    def dest_ty(self):
        return self.eng.local_ty(self.fr, self.term["dest"])

    def arg_ty(self, i):
        o = self.term["args"][i]
        if o[0] in ("copy", "move"):
            return self.eng.local_ty(self.fr, o[1])
        if o[0] == "const":
            return self.eng.subst_ty(o[1]["ty"], self.fr.genv)
        return None


def contains_uid(t, uid, _memo=None):
    if not isinstance(t, tuple):
        return False
    if _memo is None:
        _memo = {}
    k = id(t)
    r = _memo.get(k)
    if r is not None:
        return r
    res = False
    if len(t) >= 2 and t[0] in ("lv", "elem", "idx", "hasnext", "next") and t[1] == uid:
        res = True
    else:
        for x in t:
            if isinstance(x, tuple) and contains_uid(x, uid, _memo):
                res = True
                break
    _memo[k] = res
    return res


def has_param(t):
    if not isinstance(t, tuple) or not t:
        return False
    k = t[0]
    if k == "param":
        return True
    if k == "const":
        return not isinstance(t[1], int)
    if k == "adt":
        return any(has_param(x) for x in t[2])
    if k in ("ref", "ptr"):
        return has_param(t[2])
    if k == "array":
        return not isinstance(t[2], int) or has_param(t[1])
    if k == "slice":
        return has_param(t[1])
    if k == "tuple":
        return any(has_param(x) for x in t[1])
    if k == "fndef":
        return any(has_param(x) for x in t[2])
    return False


def unify(pat, t, env):
    """Match impl self type `pat` (with params) against concrete type `t`."""
    if pat[0] == "param":
        if pat[1] in env:
            return env[pat[1]] == t
        env[pat[1]] = t
        return True
    if pat[0] == "const":
        if isinstance(pat[1], int):
            return t == pat
        if pat[1] in env:
            return env[pat[1]] == t
        env[pat[1]] = t
        return True
    if pat[0] != t[0]:
        return False
    k = pat[0]
    if k == "adt":
        if pat[1] != t[1] or len(pat[2]) != len(t[2]):
            return False
        return all(unify(a, b, env) for a, b in zip(pat[2], t[2]))
    if k in ("ref", "ptr"):
        return pat[1] == t[1] and unify(pat[2], t[2], env)
    if k == "array":
        if not unify(pat[1], t[1], env):
            return False
        if isinstance(pat[2], int):
            return pat[2] == t[2]
        n = ("const", t[2])
        if pat[2] in env:
            return env[pat[2]] == n
        env[pat[2]] = n
        return True
    if k == "slice":
        return unify(pat[1], t[1], env)
    if k == "tuple":
        return len(pat[1]) == len(t[1]) and all(unify(a, b, env) for a, b in zip(pat[1], t[1]))
    return pat == t


INT_RANGES = {
    "u8": (0, 2**8 - 1), "u16": (0, 2**16 - 1), "u32": (0, 2**32 - 1), "u64": (0, 2**64 - 1),
    "u128": (0, 2**128 - 1), "usize": (0, 2**64 - 1),
    "i8": (-2**7, 2**7 - 1), "i16": (-2**15, 2**15 - 1), "i32": (-2**31, 2**31 - 1),
    "i64": (-2**63, 2**63 - 1), "i128": (-2**127, 2**127 - 1), "isize": (-2**63, 2**63 - 1),
}


def fits(v, ts):
    r = INT_RANGES.get(ts)
    if r is None:
        return True
    return r[0] <= v <= r[1]


def wrap_int(v, ts):
    r = INT_RANGES.get(ts)
    if r is None:
        return v
    lo, hi = r
    m = hi - lo + 1
    return (v - lo) % m + lo


def contains_term(t, needle, _memo=None):
    if t == needle:
        return True
    if not isinstance(t, tuple):
        return False
    if _memo is None:
        _memo = set()
    if id(t) in _memo:
        return False
    _memo.add(id(t))
    return any(contains_term(x, needle, _memo) for x in t if isinstance(x, tuple))


# ---------------------------------------------------------------- piecewise sequences (byte buffers assembled by range writes)
def seq_len(v, lens=None):
    """Static length of a sequence-valued term, when known."""
    k = v[0]
    if k == "array":
        return len(v[1])
    if k == "repeat" and isinstance(v[2], int):
        return v[2]
    if k == "concat":
        tot = 0
        for p in v[1]:
            n = seq_len(p, lens)
            if n is None:
                return None
            tot += n
        return tot
    if k == "bytes":
        return lens.get(v) if lens is not None else None
    if k == "slice_of" and v[2][0] == "int" and v[3][0] == "int":
        return v[3][1] - v[2][1]
    if k in ("copied", "refv", "box", "deref"):
        return seq_len(v[1], lens)
    if k == "digest":
        return 32
    if lens is not None:
        n = lens.get(v)
        if isinstance(n, int):
            return n
    return None



def seq_slice(v, lo, hi, lens=None):
    """List of parts making up v[lo..hi] (lo < hi, within bounds)."""
    if lo >= hi:
        return []
    k = v[0]
    if k == "array":
        return [("array", v[1][lo:hi])]
    if k == "repeat":
        if hi - lo <= 8:
            return [("array", (v[1],) * (hi - lo))]       # a short run is the explicit element list
        return [("repeat", v[1], hi - lo)]
    if k == "concat":
        out = []
        off = 0
        for p in v[1]:
            n = seq_len(p, lens)
            a, b = max(lo, off), min(hi, off + n)
            if a < b:
                out += [p] if (a == off and b == off + n) else seq_slice(p, a - off, b - off, lens)
            off += n
        return out
    n = seq_len(v, lens)
    if n is not None and lo == 0 and hi == n:
        return [v]
    return [("slice_of", v, ("int", lo), ("int", hi))]


def seq_concat(parts, lens=None):
    flat = []
    for p in parts:
        if p[0] == "concat":
            flat += list(p[1])
        elif seq_len(p, lens) == 0:
            continue
        else:
            flat.append(p)
    # merge adjacent literal arrays
    out = []
    for p in flat:
        if out and out[-1][0] == "array" and p[0] == "array":
            out[-1] = ("array", out[-1][1] + p[1])
        else:
            out.append(p)
    if len(out) == 1:
        return out[0]
    return ("concat", tuple(out))


def decode_int_array(ty, hexbytes):
    """Evaluated contents of a constant of type [<int>; n] from its little-endian memory image."""
    if not ty or ty[0] != "array" or ty[1][0] != "prim" or not isinstance(ty[2], int):
        return None
    width = {"u8": 1, "i8": 1, "u16": 2, "i16": 2, "u32": 4, "i32": 4, "u64": 8, "i64": 8, "usize": 8, "isize": 8, "u128": 16, "i128": 16}.get(ty[1][1])
    if width is None:
        return None
    raw = bytes.fromhex(hexbytes)
    if len(raw) != width * ty[2]:
        return None
    signed = ty[1][1].startswith("i")
    return ("array", tuple(("int", int.from_bytes(raw[i * width:(i + 1) * width], "little", signed=signed)) for i in range(ty[2])))
