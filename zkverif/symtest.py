import sys, traceback
from . import facts
from .sym import Engine
from .fmt import Fmt

def main():
    prog = facts.load()
    pat = sys.argv[1]
    gargs = None
    for b in prog.bodies.values():
        if pat in b.path or pat == b.id:
            eng = Engine(prog)
            print("====", b.path)
            try:
                ret, st, fr = eng.eval_fn(b)
            except Exception:
                traceback.print_exc()
                continue
            names = {i: (b.local_name(i) or "arg%d" % i) for i in range(1, b.argc + 1)}
            f = Fmt(eng, names)
            print("ret =", f(ret) if ret is not None else None)
            for s, c in eng.arg_cells.items():
                v = st.store.get(c)
                if v != s:
                    print("  *%s :=" % names.get(s[1]), f(v))
            for o in eng.obligations:
                print("  obligation", o["kind"], "pc=", f(("b", o["pc"])), "cond=", f(o["cond"]) if o.get("cond") else None, [f(x) for x in o["ops"]])
            for p in eng.panics:
                print("  panic", p["callee"], "pc=", f(("b", p["pc"])))
            for u, li in eng.loops.items():
                print("  loop", u, li.kind, "src=", f(li.src) if li.src else None)
                for c in li.cells:
                    if li.step.get(c) != ("lv", u, c):
                        print("     c%d init=%s step=%s" % (c, f(li.init[c])[:200], f(li.step[c])[:300]))
                for cond, tgt in getattr(li, "early", []):
                    print("     early exit ->", tgt, "when", f(("b", cond)))
            if eng.unknown_calls:
                print("  unknown calls:", eng.unknown_calls)
            for n in eng.notes[:10]:
                print("  note:", n)

main()
