"""Thorough-tier extras shared by all properties: second feature configuration, E8 witnesses."""
import os
import re
import subprocess
import shutil

from . import facts

WITNESS = os.path.join(facts.VERIF, "witness")
WITNESS_TARGET = os.path.join(facts.CACHE, "witness-target")

WITNESS_MAP = {
    "W01": ["C08", "C01"], "W02": ["C01", "C02"], "W03": ["C18", "C15"], "W04": ["C05", "C15"], "W05": ["C03", "C04"],
    "W06": ["C03"], "W07": ["C03"], "W08": ["C01", "C08"], "W09": ["C14", "C08"], "W10": ["C07", "C15"],
    "W11": ["C17", "C15"], "W12": ["C05"],
}
WITNESS_DESC = {
    "W01": "VerifiedBlindedMessage cannot be constructed outside zkchannels-crypto",
    "W02": "VerifiedBlindedState cannot be constructed outside zkabacus-crypto",
    "W03": "Nonce cannot be built from an arbitrary scalar outside the crate",
    "W04": "RevocationPair fields are private",
    "W05": "the customer's internal State is unreachable from outside",
    "W06": "Ready is consumed by start()",
    "W07": "Started is consumed by lock()",
    "W08": "a verified blinded state can be activated only once",
    "W09": "BlindingFactor::from_scalar is crate-private",
    "W10": "Signature cannot be assembled from arbitrary elements",
    "W11": "balances are only obtainable through the range-checked constructors",
    "W12": "the pending payment is consumed by complete_payment",
}


def config_agreement(rep):
    """The `bincode` feature configuration must add no library code: same bodies, same ADTs."""
    rep.rule("config-coverage", "the second buildable feature configuration (bincode) contains exactly the same non-test bodies and types as the default one (sqlite cannot be built offline here: stated as uncovered)")
    try:
        p2 = facts.load("bincode", getattr(rep.prog, "repo", facts.REPO))
    except SystemExit as e:
        rep.fail("config-coverage", "bincode", "feature configuration `bincode` does not build: %s" % e)
        return
    a = set(rep.prog.bodies)
    b = set(p2.bodies)
    if a == b and set(rep.prog.adts) == set(p2.adts):
        rep.ok("config-coverage", "bincode", sample="%d bodies, %d types in both configurations" % (len(a), len(rep.prog.adts)), nontrivial=False)
        rep.extra["configs"] = ["default", "bincode"]
    else:
        only = sorted((a ^ b))[:5]
        rep.fail("config-coverage", "bincode", "feature `bincode` changes the analysed program (bodies differing: %s): rules must be re-run per configuration" % only)


def witnesses(rep):
    mine = sorted(w for w, ps in WITNESS_MAP.items() if rep.pid in ps)
    if not mine:
        return
    rep.rule("witness", "type-level compile_fail witnesses (each with a compiling twin) run with cargo +nightly test --doc against /repo's current tree")
    lock_src = os.path.join(getattr(rep.prog, "repo", facts.REPO), "Cargo.lock")
    try:
        shutil.copyfile(lock_src, os.path.join(WITNESS, "Cargo.lock"))
    except OSError:
        pass
    os.makedirs(WITNESS_TARGET, exist_ok=True)
    env = dict(os.environ, CARGO_NET_OFFLINE="true", CARGO_TARGET_DIR=WITNESS_TARGET, RUSTFLAGS="-Awarnings")
    env.pop("RUSTC_WORKSPACE_WRAPPER", None)
    cmd = ["cargo", "+nightly", "test", "--doc", "--offline", "--"] + mine
    r = subprocess.run(cmd, cwd=WITNESS, env=env, capture_output=True, text=True)
    out = r.stdout + r.stderr
    seen = {}
    for m in re.finditer(r"test src/lib\.rs - (W\d+) \(line \d+\) - (compile fail|compile) \.\.\. (\w+)", out):
        seen.setdefault(m.group(1), []).append((m.group(2), m.group(3)))
    for w in mine:
        res = seen.get(w, [])
        kinds = {k: v for k, v in res}
        if kinds.get("compile fail") == "ok" and kinds.get("compile") == "ok":
            rep.ok("witness", w, sample=WITNESS_DESC[w] + " (compile_fail witness + compiling twin)")
        else:
            rep.fail("witness", w, "type-level witness %s no longer holds (%s): %s" % (w, WITNESS_DESC[w], res or out[-600:]),
                     site="witness/src/lib.rs")


def run(rep):
    config_agreement(rep)
    witnesses(rep)
