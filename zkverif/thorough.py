"""Thorough-tier extras shared by all properties: second feature configuration, E8 witnesses."""
import os
import re
import subprocess
import shutil

from . import facts

WITNESS = os.path.join(facts.VERIF, "witness")
WITNESS_TARGET = os.path.join(facts.CACHE, "witness-target")

WITNESS_MAP = {
    "W01": ["C08", "C01"], "W02": ["C01", "C02"], "W03": ["C18", "C15"], "W04": ["C05", "C15"], "W05": ["C03", "C04"],
    "W06": ["C03"], "W07": ["C03"], "W08": ["C01", "C08"], "W09": ["C14", "C08"], "W10": ["C07", "C15"],
    "W11": ["C17", "C15"], "W12": ["C05"],
}
WITNESS_DESC = {
    "W01": "VerifiedBlindedMessage cannot be constructed outside zkchannels-crypto",
    "W02": "VerifiedBlindedState cannot be constructed outside zkabacus-crypto",
    "W03": "Nonce cannot be built from an arbitrary scalar outside the crate",
    "W04": "RevocationPair fields are private",
    "W05": "the customer's internal State is unreachable from outside",
    "W06": "Ready is consumed by start()",
    "W07": "Started is consumed by lock()",
    "W08": "a verified blinded state can be activated only once",
    "W09": "BlindingFactor::from_scalar is crate-private",
    "W10": "Signature cannot be assembled from arbitrary elements",
    "W11": "balances are only obtainable through the range-checked constructors",
    "W12": "the pending payment is consumed by complete_payment",
}


def config_agreement(rep):
    """The `bincode` feature configuration must add no library code: same bodies, same ADTs."""
    rep.rule("config-coverage", "the second buildable feature configuration (bincode) contains exactly the same non-test bodies and types as the default one (sqlite cannot be built offline here: stated as uncovered)")
    try:
        p2 = facts.load("bincode", getattr(rep.prog, "repo", facts.REPO))
    except SystemExit as e:
        rep.fail("config-coverage", "bincode", "feature configuration `bincode` does not build: %s" % e)
        return
    a = set(rep.prog.bodies)
    b = set(p2.bodies)
    if a == b and set(rep.prog.adts) == set(p2.adts):
        rep.ok("config-coverage", "bincode", sample="%d bodies, %d types in both configurations" % (len(a), len(rep.prog.adts)), nontrivial=False)
        rep.extra["configs"] = ["default", "bincode"]
    else:
        only = sorted((a ^ b))[:5]
        rep.fail("config-coverage", "bincode", "feature `bincode` changes the analysed program (bodies differing: %s): rules must be re-run per configuration" % only)


def witnesses(rep):
    mine = sorted(w for w, ps in WITNESS_MAP.items() if rep.pid in ps)
    if not mine:
        return
    rep.rule("witness", "type-level compile_fail witnesses (each with a compiling twin) run with cargo +nightly test --doc against /repo's current tree")
    lock_src = os.path.join(getattr(rep.prog, "repo", facts.REPO), "Cargo.lock")
    try:
        shutil.copyfile(lock_src, os.path.join(WITNESS, "Cargo.lock"))
    except OSError:
        pass
    os.makedirs(WITNESS_TARGET, exist_ok=True)
    env = dict(os.environ, CARGO_NET_OFFLINE="true", CARGO_TARGET_DIR=WITNESS_TARGET, RUSTFLAGS="-Awarnings")
    env.pop("RUSTC_WORKSPACE_WRAPPER", None)
    cmd = ["cargo", "+nightly", "test", "--doc", "--offline", "--"] + mine
    r = subprocess.run(cmd, cwd=WITNESS, env=env, capture_output=True, text=True)
    out = r.stdout + r.stderr
    seen = {}
    for m in re.finditer(r"test src/lib\.rs - (W\d+) \(line \d+\) - (compile fail|compile) \.\.\. (\w+)", out):
        seen.setdefault(m.group(1), []).append((m.group(2), m.group(3)))
    for w in mine:
        res = seen.get(w, [])
        kinds = {k: v for k, v in res}
        if kinds.get("compile fail") == "ok" and kinds.get("compile") == "ok":
            rep.ok("witness", w, sample=WITNESS_DESC[w] + " (compile_fail witness + compiling twin)")
        else:
            rep.fail("witness", w, "type-level witness %s no longer holds (%s): %s" % (w, WITNESS_DESC[w], res or out[-600:]),
                     site="witness/src/lib.rs")


def control_patches(pid):
    """(path, kind) of the stored changes that exercise property `pid`: mutants / seeds that must make its check
    fire, behaviour-preserving edits that must leave it silent."""
    import glob
    import json
    out = []
    k = int(pid[1:]) if pid[1:].isdigit() else 0
    camp = []
    for p in sorted(glob.glob(os.path.join(facts.VERIF, "selftest", "mutants", "*.diff"))):
        m = re.search(r"^# expect: (.*)$", open(p).read(), re.M)
        if m and pid in m.group(1).split():
            if os.path.basename(p).startswith("mc_"):
                camp.append(p)          # mutation-campaign survivors: many near-duplicates, a fixed sample suffices here
            else:
                out.append((p, "must-fire"))
    for i in range(min(4, len(camp))):
        p = camp[(k + i * 3) % len(camp)]
        if (p, "must-fire") not in out:
            out.append((p, "must-fire"))
    for p in sorted(glob.glob(os.path.join(facts.VERIF, "seeded", "*", "patch.diff"))):
        try:
            meta = json.load(open(os.path.join(os.path.dirname(p), "meta.json")))
        except (OSError, ValueError):
            continue
        if pid in meta.get("expect_checks", [meta.get("property")]):
            out.append((p, "must-fire"))
    pres = sorted(glob.glob(os.path.join(facts.VERIF, "selftest", "preserving", "*.diff")))
    # the whole behaviour-preserving list is exercised by selftest/run.py; each property's thorough run re-checks a
    # fixed, property-dependent sample of it (the large refactorings first) to stay within minutes
    big = [p for p in pres if os.path.basename(p).startswith(("rf", "rg"))]
    small = [p for p in pres if p not in big]
    pick = [big[(k + i * 5) % len(big)] for i in range(min(3, len(big)))] if big else []
    pick += [small[(k * 3 + i * 7) % len(small)] for i in range(min(5, len(small)))] if small else []
    for p in sorted(set(pick)):
        out.append((p, "must-stay-silent"))
    return out


def controls(rep):
    """Liveness controls: the property's check is run (quick tier) on scratch worktrees of /repo's HEAD carrying one
    stored change each.  This tests the checker, not the tree: a misbehaving control is CHECK-BROKEN, never a violation."""
    import tempfile
    import shutil
    if os.environ.get("ZKV_NO_CONTROLS") or rep.findings:
        return
    repo = getattr(rep.prog, "repo", facts.REPO)
    pats = control_patches(rep.pid)
    res = []
    evid = tempfile.mkdtemp(prefix="zkv-ctl-evid-")
    import threading
    from concurrent.futures import ThreadPoolExecutor
    gitlock = threading.Lock()

    def one(pk):
        p, kind = pk
        name = os.path.relpath(p, facts.VERIF)
        wt = tempfile.mkdtemp(prefix="zkv-ctl-")
        os.rmdir(wt)
        with gitlock:
            r = subprocess.run(["git", "-C", repo, "worktree", "add", "--detach", wt, "HEAD"], capture_output=True, text=True)
        if r.returncode:
            res.append({"patch": name, "kind": kind, "result": "skipped: no scratch worktree (%s)" % r.stderr.strip()[:80]})
            return
        try:
            r = subprocess.run(["git", "-C", wt, "apply", "--whitespace=nowarn", p], capture_output=True, text=True)
            if r.returncode:
                res.append({"patch": name, "kind": kind, "result": "skipped: does not apply to the current HEAD"})
                return
            r = subprocess.run([os.path.join(facts.VERIF, "check"), rep.pid, "--tier", "quick", "--repo", wt], cwd=facts.VERIF,
                               capture_output=True, text=True, env=dict(os.environ, ZKV_EVID_DIR=evid, ZKV_NO_CONTROLS="1"))
            if "fact extraction failed" in (r.stdout + r.stderr):
                res.append({"patch": name, "kind": kind, "result": "skipped: variant does not compile on this HEAD"})
                return
            fired = r.returncode == 1 and "VIOLATION property=%s" % rep.pid in r.stdout
            silent = r.returncode == 0
            okc = fired if kind == "must-fire" else silent
            what = "fired" if fired else ("silent" if silent else "exit %d" % r.returncode)
            first = ""
            if fired:
                for line in r.stdout.splitlines():
                    if line.startswith("  rule="):
                        first = line.strip()[:160]
                        break
            res.append({"patch": name, "kind": kind, "result": what, "as_expected": okc, "first_report": first})
            if not okc:
                rep.broken.append("control %s (%s) -> %s" % (name, kind, what))
        finally:
            with gitlock:
                subprocess.run(["git", "-C", repo, "worktree", "remove", "--force", wt], capture_output=True)
            shutil.rmtree(wt, ignore_errors=True)

    try:
        with ThreadPoolExecutor(max_workers=int(os.environ.get("ZKV_CONTROL_JOBS", "4"))) as ex:
            list(ex.map(one, pats))
        res.sort(key=lambda x: x["patch"])
    finally:
        shutil.rmtree(evid, ignore_errors=True)
    rep.extra["controls"] = res
    rep.extra["controls_summary"] = "%d stored changes exercised: %d behaved as expected, %d skipped" % (
        len(res), sum(1 for x in res if x.get("as_expected")), sum(1 for x in res if x["result"].startswith("skipped")))


def run(rep):
    config_agreement(rep)
    witnesses(rep)
    controls(rep)
