"""Fiat-Shamir transcripts: the canonical sequence of items a hasher value has absorbed."""
from .models import leaves_of


def hasher_items(S, h):
    """h: engine term of a hasher.  Returns a list of items:
       ('item', canon term)               one absorbed value
       ('each', (leaf,...), (items...))   a whole-collection loop absorbing `items` per element
       ('base', canon term)               the hasher we started from (argument / unknown)"""
    eng, alg = S.eng, S.alg
    k = h[0]
    if k == "hash0":
        return []
    if k == "absorb":
        return hasher_items(S, h[1]) + [("item", alg.canon(h[2]))]
    if k == "field" and h[1][0] == "loopout":
        return loop_items(S, h[1][1], h[1][2], h[2])
    if k == "loopout":
        return loop_items(S, h[1], h[2], None)
    if k == "field" and h[1][0] in ("upd", "struct", "ite", "mutated"):
        v = eng.proj_field(h[1], h[2], h[3] if len(h) > 3 else None)
        if v != h:
            return hasher_items(S, v)
    if k == "ite":
        return [("ite", alg.nb(h[1]), tuple(hasher_items(S, h[2])), tuple(hasher_items(S, h[3])))]
    return [("base", alg.canon(h))]


def loop_items(S, uid, c, idx):
    eng, alg = S.eng, S.alg
    info = eng.loops.get(uid)
    if info is None or c not in info.step:
        return [("base", ("loopout", uid, c))]
    init = info.init[c]
    step = info.step[c]
    if idx is not None:
        init = eng.proj_field(init, idx)
        step = eng.proj_field(step, idx)
    pre = hasher_items(S, init)
    # a loop over a literal array ( `for x in [a, b, c] { builder.consume(x) }` ) is the explicit sequence
    arr = literal_array(info.src) if info.kind == "iter" and info.src is not None and not getattr(info, "early", []) else None
    if arr is not None:
        lvh0 = ("field", ("lv", uid, c), idx, None) if idx is not None else ("lv", uid, c)
        lvc0 = alg.canon(lvh0)
        out = list(pre)
        okx = True
        from .sym import State
        st_in = State(info.init_store, 1)
        for e in arr:
            if e[0] == "ref":
                # `[&a, &b]`: a borrow of a local; the loop body does not write it (it only reads elements), so its
                # value at loop entry is its value in every iteration
                e = ("refv", eng.deref_value(st_in, e))
            bj = hasher_items(S, eng.subst(step, {("elem", uid, 0): e}))
            if bj and bj[0] == ("base", lvc0):
                out += bj[1:]
            else:
                okx = False
                break
        if okx:
            return out
    sub = alg.loop_sub(info) if info.kind == "iter" else {}
    lvh = ("field", ("lv", uid, c), idx, None) if idx is not None else ("lv", uid, c)
    body = hasher_items(S, eng.subst(step, sub))
    # the body's transcript must start from the loop variable itself
    lvc = alg.canon(lvh)
    if body and body[0] == ("base", lvc):
        body = body[1:]
        whole = info.kind == "iter" and not getattr(info, "early", [])
        leaves = tuple(alg.leaf(l) for l in leaves_of(info.src)) if info.src is not None else ()
        shape_ok = info.src is not None and plain_shape(info.src)
        return pre + [("each" if (whole and shape_ok) else "each?", leaves, tuple(body))]
    return pre + [("loop?", uid, c)]


def literal_array(shape):
    """Elements of an iterator shape that walks a literal array once, front to back; else None."""
    k = shape[0]
    if k in ("vals", "refs") and shape[1][0] == "array":
        return list(shape[1][1])
    if k == "array":
        return list(shape[1])
    return None


def plain_shape(shape):
    """Whole-collection iteration: no skip/take/rev/filter adapters."""
    k = shape[0]
    if k in ("adapter", "take", "rev", "revall"):
        return False
    if k == "zip":
        return plain_shape(shape[1]) and plain_shape(shape[2])
    if k == "enumerate":
        return plain_shape(shape[1])
    if k == "map":
        return plain_shape(shape[3])
    return True


def flat_atoms(items, acc=None):
    """All canonical terms absorbed anywhere in the transcript (for set-style coverage rules)."""
    if acc is None:
        acc = []
    for it in items:
        if it[0] == "item":
            acc.append(it[1])
        elif it[0] in ("each", "each?"):
            flat_atoms(it[2], acc)
        elif it[0] == "ite":
            flat_atoms(it[2], acc)
            flat_atoms(it[3], acc)
    return acc


def builder_hasher(S, builder_value):
    """The hasher inside a ChallengeBuilder value (its only field)."""
    return S.eng.proj_field(builder_value, 0)


def consume_transcript(S, body, self_term=None):
    """Transcript appended by a `ChallengeInput::consume(&self, &mut builder)` body."""
    from .lib import arg
    eng = S.eng
    args = None
    if self_term is not None:
        cell = next(eng.ncell)
        args = [("refv", self_term), None]
    ret, st, fr = eng.eval_fn(body, args=args)
    S.last_state = st
    c = eng.arg_cells.get(("arg", 2))
    final = st.store.get(c)
    return hasher_items(S, builder_hasher(S, final))


def strip_leaves(items):
    """Transcripts up to the identity of the iterated collection (`each` over the builders vs `each`
    over the proofs made from them): the per-element items are already expressed in the same atoms."""
    out = []
    for it in items:
        if it[0] in ("each", "each?"):
            out.append((it[0], len(it[1]), strip_leaves(it[2])))
        else:
            out.append(it)
    return tuple(out)
